package c04

import (
	"encoding/json"
	"errors"
	"fmt"
	"path"
	"strings"
	"testing"

	"github.com/hack-pad/hackpadfs"
	hos "github.com/hack-pad/hackpadfs/os"
	"pgregory.net/rapid"

	"verifharness/internal/vf"
)

// ------------------------------------------------------------------ Sub on an os.FS that has NO root yet
//
// Every other os.FS subject is rooted in a scratch directory first, so its root never begins with the characters of the
// directory name handed to Sub. Here a chain of 1..3 Sub calls starts at os.NewFS() itself. Sub does not touch the disk:
// an invalid directory name must be refused with ErrInvalid, a valid one (also "..x", "...", "a\b", ":") must never be
// refused as invalid, and the view it gives is rooted at "/" + the names joined.

type TopCase struct {
	Dirs []string `json:"dirs"`
}

func checkTopLevelSub(c TopCase) (string, string) {
	base := "C04/ostop sub"
	fsys := hos.NewFS()
	want := "/"
	for i, dir := range c.Dirs {
		var v hackpadfs.FS
		var err error
		if pan, hung := vf.Guard(func() { v, err = fsys.Sub(dir) }); pan != "" || hung {
			return base + ":crash", fmt.Sprintf("Sub(%q) (call %d of %q): %s hung=%v", dir, i, c.Dirs, pan, hung)
		}
		if !hackpadfs.ValidPath(dir) || strings.ContainsRune(dir, 0) {
			if err == nil {
				return base + ":accepted", fmt.Sprintf("Sub(%q) (call %d of %q) succeeded although the name is not a valid path", dir, i, c.Dirs)
			}
			if !errors.Is(err, hackpadfs.ErrInvalid) {
				return base + ":wrong-error", fmt.Sprintf("Sub(%q) (call %d of %q): %v does not match ErrInvalid", dir, i, c.Dirs, err)
			}
			continue
		}
		if err != nil {
			if errors.Is(err, hackpadfs.ErrInvalid) {
				return base + ":valid-refused", fmt.Sprintf("Sub(%q) (call %d of %q, on an os.FS rooted at %q): valid name refused as invalid: %v", dir, i, c.Dirs, want, err)
			}
			continue // Sub may look at the disk one day; any other error is not this property's subject
		}
		next, ok := v.(*hos.FS)
		if !ok {
			return base + ":type", fmt.Sprintf("Sub(%q) returned %T", dir, v)
		}
		fsys = next
		want = path.Join(want, dir)
		if got, err := fsys.ToOSPath("."); err != nil || got != want {
			return base + ":root", fmt.Sprintf("after Sub calls %q the view is rooted at %q (%v), want %q", c.Dirs[:i+1], got, err, want)
		}
	}
	return "", ""
}

func TestTopLevelSub(t *testing.T) {
	vf.Check(t, "ostop", func(rt *rapid.T, rec *vf.Rec) {
		var c TopCase
		n := rapid.IntRange(1, 3).Draw(rt, "chain")
		for i := 0; i < n; i++ {
			switch rapid.IntRange(0, 3).Draw(rt, "namemode") {
			case 0:
				c.Dirs = append(c.Dirs, invalidName(rt, rapid.SampledFrom([]string{".", "a", "a/b", "..x/y"}).Draw(rt, "base")))
			case 1:
				c.Dirs = append(c.Dirs, rapid.StringOfN(rapid.RuneFrom([]rune{'a', 'b', '/', '.', '\\', ':', 'é', ' '}), 0, 8, -1).Draw(rt, "fuzzname"))
			default:
				odd := rapid.SampledFrom([]string{`a\b`, `a:b`, `c:\x`, ` a`, `.x`, `..x`, `x..`, `é`, `a b`, `b\`, `:`, `...`, `..x/..y`, `a/..b`, `....`, `.`, `..a/b`}).Draw(rt, "odd")
				c.Dirs = append(c.Dirs, odd)
			}
		}
		rec.Step(c)
		for _, d := range c.Dirs {
			if hackpadfs.ValidPath(d) && strings.HasPrefix(d, "..") {
				rec.NonTrivial()
			}
		}
		if sig, msg := checkTopLevelSub(c); sig != "" {
			rec.Failf(rt, sig, "%s", msg)
		}
	})
}

func TestReplayTopLevelSub(t *testing.T) {
	vf.Replay(t, "ostop", func(steps []json.RawMessage) (string, string) {
		for _, raw := range steps {
			var c TopCase
			if err := json.Unmarshal(raw, &c); err != nil {
				return "bad-replay", err.Error()
			}
			if sig, msg := checkTopLevelSub(c); sig != "" {
				return sig, msg
			}
		}
		return "", ""
	})
}
