// C04: names that are not valid FS paths are rejected everywhere and change nothing.
package c04

import (
	"archive/tar"
	"bytes"
	"context"
	"encoding/json"
	"errors"
	"fmt"
	"github.com/hack-pad/hackpadfs/keyvalue"
	"io"
	"io/fs"
	"os"
	"path"
	"sort"
	"strconv"
	"strings"
	"testing"
	"time"
	"unicode/utf8"
	"verifharness/internal/kvstore"

	"github.com/hack-pad/hackpadfs"
	"github.com/hack-pad/hackpadfs/cache"
	hos "github.com/hack-pad/hackpadfs/os"
	htar "github.com/hack-pad/hackpadfs/tar"
	"pgregory.net/rapid"

	"verifharness/internal/gen"
	"verifharness/internal/ops"
	"verifharness/internal/subj"
	"verifharness/internal/vf"
	"verifharness/internal/world"
)

func TestMain(m *testing.M) {
	world.Init()
	vf.Main(m, world.Cleanup)
}

// Case is the replay format: the setup history and one probe.
type Case struct {
	Kind  string   `json:"kind"`
	Setup []ops.Op `json:"setup"`
	Probe ops.Op   `json:"probe"`
	Which int      `json:"which"` // which name of a two-name op is the examined one (1 or 2)
	// Go-quoted names (JSON cannot carry invalid UTF-8); authoritative on replay
	PQ  string `json:"p_quoted"`
	P2Q string `json:"p2_quoted"`
}

type subject struct {
	fs       hackpadfs.FS
	parts    []hackpadfs.FS
	w        *world.World // os-backed subjects
	readOnly bool
	close    func()
	// storeCalls (kvoffline): how many calls the backing store has received so far
	storeCalls func() int
}

var kinds = []string{"mem", "kvplain", "kvoffline", "mount2", "submem", "submountpt", "cache", "tar", "tarbroken", "tarcanceled", "osfs", "sublenient"}

func must(err error) {
	if err != nil {
		panic(err)
	}
}

func build(kind string, setup []ops.Op) *subject {
	switch kind {
	case "mem", "kvplain", "mount2", "submem", "submountpt":
		s := subj.New(kind)
		for _, op := range setup {
			_ = ops.ApplyFS(s.FS, op)
		}
		return &subject{fs: s.FS, parts: s.Parts, close: s.Close}
	case "kvoffline":
		// keyvalue.FS over a store that has gone offline (every call fails): an invalid name is still refused as invalid,
		// and before the store is asked anything
		st := kvstore.New()
		fsys, err := keyvalue.NewFS(st)
		must(err)
		for _, op := range setup {
			_ = ops.ApplyFS(fsys, op)
		}
		st.FailAt = st.Calls() + 1
		st.FailLen = 1 << 30
		return &subject{fs: fsys, parts: nil, readOnly: true, close: func() {}, storeCalls: st.Calls}
	case "sublenient":
		// Sub over a minimal, lenient root FS (only Open, and it cleans whatever it is given): the view's own
		// ValidPath gate is the only thing that keeps "../x" inside the view.
		inner := subj.NewMem()
		must(inner.MkdirAll("s/t", 0o755))
		must(hackpadfs.WriteFullFile(inner, "s/secret", []byte("outside the view"), 0o644))
		view, err := hackpadfs.Sub(lenientFS{inner}, "s/t")
		must(err)
		for _, op := range setup {
			op.P = "s/t/" + op.P
			_ = ops.ApplyFS(inner, op)
		}
		return &subject{fs: view, parts: []hackpadfs.FS{inner}, readOnly: true, close: func() {}}
	case "osfs":
		w := world.New()
		fsys := subj.OSFS(w.Root, 1)
		for _, op := range setup {
			_ = ops.ApplyFS(fsys, op)
		}
		return &subject{fs: fsys, parts: []hackpadfs.FS{fsys}, w: w, close: w.Close}
	case "cache":
		src := subj.NewMem()
		for _, op := range setup {
			_ = ops.ApplyFS(src, op)
		}
		store := subj.NewMem()
		c, err := cache.NewReadOnlyFS(src, store, cache.ReadOnlyOptions{})
		must(err)
		return &subject{fs: c, parts: []hackpadfs.FS{c, src, store}, readOnly: true, close: func() {}}
	case "tar", "tarbroken", "tarcanceled":
		src := subj.NewMem()
		for _, op := range setup {
			_ = ops.ApplyFS(src, op)
		}
		snap, _ := ops.SnapFS(src)
		var buf bytes.Buffer
		tw := tar.NewWriter(&buf)
		var names []string
		for p := range snap {
			if p != "." {
				names = append(names, p)
			}
		}
		sort.Strings(names)
		for _, p := range names {
			n := snap[p]
			if n.Kind == 'd' {
				must(tw.WriteHeader(&tar.Header{Name: p + "/", Typeflag: tar.TypeDir, Mode: int64(n.Perm)}))
			} else {
				must(tw.WriteHeader(&tar.Header{Name: p, Typeflag: tar.TypeReg, Mode: int64(n.Perm), Size: int64(len(n.Data))}))
				_, err := tw.Write([]byte(n.Data))
				must(err)
			}
		}
		if kind == "tarbroken" {
			// a last entry that the cut below falls into
			must(tw.WriteHeader(&tar.Header{Name: "zz-last", Typeflag: tar.TypeReg, Mode: 0o644, Size: 3000}))
			_, err := tw.Write(bytes.Repeat([]byte{'z'}, 3000))
			must(err)
		}
		must(tw.Close())
		dest := subj.NewMem()
		ctx := context.Background()
		var r io.Reader = &buf
		switch kind {
		case "tarbroken":
			// a tar FS whose unpacking FAILED (archive cut inside the last entry): names are still validated first
			r = bytes.NewReader(buf.Bytes()[:buf.Len()-2500])
		case "tarcanceled":
			c, cancel := context.WithCancel(ctx)
			cancel()
			ctx = c
		}
		tfs, err := htar.NewReaderFS(ctx, r, htar.ReaderFSOptions{UnarchiveFS: dest})
		must(err)
		select {
		case <-tfs.Done():
		case <-time.After(vf.WatchdogDur()):
			panic("tar unpack did not finish")
		}
		if kind != "tar" && tfs.UnarchiveErr() != nil {
			// unpacking failed: the tar FS answers valid names with the unarchive error, and background writers may still be
			// finishing in the destination, so there is no stable state to compare: only the results of the probes count
			return &subject{fs: tfs, parts: nil, readOnly: true, close: func() {}}
		}
		// (a cancelled context is not noticed when the archive has no entries: then this is a healthy tar FS)
		return &subject{fs: tfs, parts: []hackpadfs.FS{tfs, dest}, readOnly: true, close: func() {}}
	}
	panic(kind)
}

type lenientFS struct{ inner hackpadfs.FS }

func (l lenientFS) Open(name string) (hackpadfs.File, error) {
	return l.inner.Open(strings.TrimPrefix(path.Clean("/"+name), "/") + map[bool]string{true: ".", false: ""}[path.Clean("/"+name) == "/"])
}

func (s *subject) snapshot() (string, string) {
	var b strings.Builder
	for i, p := range s.parts {
		snap, prob := ops.SnapFS(p)
		if prob != "" {
			return "", prob
		}
		keys := make([]string, 0, len(snap))
		for k := range snap {
			keys = append(keys, k)
		}
		sort.Strings(keys)
		for _, k := range keys {
			fmt.Fprintf(&b, "%d:%s=%v\n", i, k, snap[k])
		}
	}
	if s.w != nil {
		snap := ops.SnapOS(s.w.Dir)
		keys := make([]string, 0, len(snap))
		for k := range snap {
			keys = append(keys, k)
		}
		sort.Strings(keys)
		for _, k := range keys {
			fmt.Fprintf(&b, "os:%s=%v\n", k, snap[k])
		}
	}
	return b.String(), ""
}

// probe kinds: single-name and two-name helpers
var singleKinds = []string{"mkdir", "mkdirall", "openfile", "create", "writefile", "remove", "removeall", "chmod", "chtimes", "chown", "chownkeep",
	"stat", "lstat", "lstatorstat", "open", "readdir", "readfile", "sub"}
var doubleKinds = []string{"rename", "symlink"}

// opsWithNoOtherEINVAL: for a valid name these can only fail with EINVAL if the name was (wrongly) refused.
var noOtherEINVAL = map[string]bool{"stat": true, "open": true, "mkdir": true, "writefile": true, "readfile": true, "remove": true, "removeall": true}

// check runs one case; returns (sig, msg).
func check(c Case) (string, string) {
	s := build(c.Kind, c.Setup)
	defer s.close()
	name := c.Probe.P
	if c.Which == 2 {
		name = c.Probe.P2
	}
	other := c.Probe.P2
	if c.Which == 2 {
		other = c.Probe.P
	}
	valid := fs.ValidPath(name) // the oracle for validity is the standard library
	if (c.Probe.K == "rename" || c.Probe.K == "symlink") && !fs.ValidPath(other) {
		valid = false
	}
	base := fmt.Sprintf("C04/%s %s", c.Kind, c.Probe.K)
	if c.Probe.K == "rename" || c.Probe.K == "symlink" {
		base += fmt.Sprintf("#%d", c.Which)
	}
	before, prob := s.snapshot()
	if prob != "" {
		return base + ":snapshot", prob
	}
	prefixExisted := false
	if i := strings.IndexAny(name, "\\:"); i > 0 && valid {
		_, err := hackpadfs.Stat(s.fs, name[:i])
		prefixExisted = err == nil
	}
	callsBefore := 0
	if s.storeCalls != nil {
		callsBefore = s.storeCalls()
	}
	res := ops.ApplyFS(s.fs, c.Probe)
	if res.Hung || res.Panic != "" {
		return base + ":crash", fmt.Sprintf("%v: %v", c.Probe, res)
	}
	if !valid && s.storeCalls != nil && s.storeCalls() != callsBefore {
		return base + ":store-reached:" + defectClass(name), fmt.Sprintf("%v: the invalid name %q reached the store (%d store calls) before being refused (%v)", c.Probe, name, s.storeCalls()-callsBefore, res.Err)
	}
	if !valid {
		cls := defectClass(name)
		if c.Which == 1 && (c.Probe.K == "rename" || c.Probe.K == "symlink") && fs.ValidPath(name) {
			cls = defectClass(other)
		}
		if res.OK() {
			return base + ":accepted:" + cls, fmt.Sprintf("%v succeeded although %q is not a valid path", c.Probe, name)
		}
		if !errors.Is(res.Err, hackpadfs.ErrInvalid) {
			// carve-out: the operation does not exist on this file system at all
			if errors.Is(res.Err, hackpadfs.ErrNotImplemented) && notImplementedForValid(c) {
				// fine
			} else {
				return base + ":wrong-error:" + cls, fmt.Sprintf("%v: error %v (%T) does not match ErrInvalid", c.Probe, res.Err, res.Err)
			}
		}
		after, prob := s.snapshot()
		if prob != "" {
			return base + ":snapshot", prob
		}
		if before != after {
			return base + ":state-changed:" + cls, fmt.Sprintf("%v failed (%v) but changed state:\nbefore:\n%s\nafter:\n%s", c.Probe, res.Err, before, after)
		}
		if s.w != nil && !s.w.SentinelIntact() {
			return base + ":escaped-root", fmt.Sprintf("%v touched the sentinel sibling of the os root", c.Probe)
		}
		return "", ""
	}
	// valid (NUL-free) name: never refused as invalid
	if !res.OK() && noOtherEINVAL[c.Probe.K] && errors.Is(res.Err, hackpadfs.ErrInvalid) {
		return base + ":valid-refused", fmt.Sprintf("%v: valid name refused as invalid: %v", c.Probe, res.Err)
	}
	if strings.ContainsAny(name, "\\:") && !strings.Contains(name, "/") && res.OK() && (c.Probe.K == "mkdir" || c.Probe.K == "writefile") && !s.readOnly {
		// backslash / colon are ordinary name bytes: exactly one root entry with that literal name
		des, err := hackpadfs.ReadDir(s.fs, ".")
		if err != nil {
			return base + ":odd-name-listing", err.Error()
		}
		found := false
		for _, de := range des {
			if de.Name() == name {
				found = true
			}
		}
		if !found {
			var names []string
			for _, de := range des {
				names = append(names, de.Name())
			}
			return base + ":odd-name-not-literal", fmt.Sprintf("%v succeeded but the root lists %q, not the literal name", c.Probe, names)
		}
		prefix := name[:strings.IndexAny(name, "\\:")]
		if prefix != "" && !prefixExisted {
			if _, err := hackpadfs.Stat(s.fs, prefix); err == nil {
				return base + ":odd-name-split", fmt.Sprintf("%v created %q: the name was split at a backslash/colon", c.Probe, prefix)
			}
		}
	}
	return "", ""
}

func contains(setup []ops.Op, name string) bool {
	for _, op := range setup {
		if op.P == name || strings.HasPrefix(op.P, name+"/") || op.P2 == name || strings.HasPrefix(op.P2, name+"/") {
			return true
		}
	}
	return false
}

// notImplementedForValid: does the same helper on a valid, missing name yield ErrNotImplemented on this subject?
func notImplementedForValid(c Case) bool {
	s := build(c.Kind, c.Setup)
	defer s.close()
	p := c.Probe
	p.P, p.P2 = "zz-missing", "zz-missing2"
	res := ops.ApplyFS(s.fs, p)
	return !res.OK() && errors.Is(res.Err, hackpadfs.ErrNotImplemented)
}

func defectClass(name string) string {
	switch {
	case name == "":
		return "empty"
	case !utf8.ValidString(name):
		return "utf8"
	case strings.HasPrefix(name, "/"):
		return "rooted"
	case strings.HasSuffix(name, "/"):
		return "trailing-slash"
	case strings.Contains(name, "//"):
		return "empty-element"
	}
	for _, el := range strings.Split(name, "/") {
		if el == ".." {
			return "dotdot"
		}
		if el == "." {
			return "dot"
		}
	}
	return "other"
}

// ------------------------------------------------------------------ generation

var names = []string{"a", "b", "c"}

func genSetup(t *rapid.T) []ops.Op {
	n := rapid.IntRange(0, 6).Draw(t, "nsetup")
	var setup []ops.Op
	// a model tree to draw against: apply the setup to a scratch mem FS
	scratch := subj.NewMem()
	for i := 0; i < n; i++ {
		snap, _ := ops.SnapFS(scratch)
		tr := gen.TreeOf(snap)
		k := rapid.SampledFrom([]string{"mkdir", "mkdirall", "writefile", "writefile"}).Draw(t, "skind")
		op := ops.Op{K: k, P: gen.Path(t, tr, names, 3, false, "sp"), Perm: 0o755}
		if k == "writefile" {
			op.Perm = 0o644
			op.Data = gen.Payload(t, 8, "sdata")
		}
		_ = ops.ApplyFS(scratch, op)
		setup = append(setup, op)
	}
	return setup
}

// invalidName applies one defect to a valid base path (boundary construction).
func invalidName(t *rapid.T, basePath string) string {
	els := strings.Split(basePath, "/")
	if basePath == "." {
		els = nil
	}
	switch rapid.IntRange(0, 9).Draw(t, "defect") {
	case 0:
		return ""
	case 1:
		return "/" + basePath
	case 2:
		if basePath == "." {
			return "./"
		}
		return basePath + "/"
	case 3:
		if len(els) >= 2 {
			i := rapid.IntRange(1, len(els)-1).Draw(t, "at")
			return strings.Join(els[:i], "/") + "//" + strings.Join(els[i:], "/")
		}
		return basePath + "//" + rapid.SampledFrom(names).Draw(t, "n")
	case 4:
		i := rapid.IntRange(0, len(els)).Draw(t, "at")
		e := append(append(append([]string{}, els[:i]...), "."), els[i:]...)
		if len(e) == 1 {
			e = append(e, "a")
		}
		return strings.Join(e, "/")
	case 5:
		i := rapid.IntRange(0, len(els)).Draw(t, "at")
		e := append(append(append([]string{}, els[:i]...), ".."), els[i:]...)
		return strings.Join(e, "/")
	case 6:
		if basePath == "." {
			return "\xff"
		}
		return basePath + "/\xffx"
	case 7:
		return "a\xc3(b"
	case 8:
		if basePath == "." {
			return "../" + rapid.SampledFrom(names).Draw(t, "n")
		}
		return basePath + "/.."
	default:
		return basePath + "/../../sentinel/keep"
	}
}

func genName(t *rapid.T, tr gen.Tree, kind string) (name string, class string) {
	mode := rapid.IntRange(0, 9).Draw(t, "namemode")
	basePath := gen.Path(t, tr, names, 3, true, "base")
	if (kind == "mount2" || kind == "submountpt") && rapid.Bool().Draw(t, "atmount") {
		basePath = rapid.SampledFrom([]string{"a", "a/b", "."}).Draw(t, "mp")
	}
	switch {
	case mode < 6:
		return invalidName(t, basePath), "boundary"
	case mode < 8:
		return rapid.StringOfN(rapid.RuneFrom([]rune{'a', 'b', '/', '.', '\\', ':', 'é', ' '}), 0, 8, -1).Draw(t, "fuzzname"), "fuzzed"
	default:
		// ("." is a valid name too: the root itself)
		odd := rapid.SampledFrom([]string{`a\b`, `a:b`, `c:\x`, ` a`, `.x`, `..x`, `x..`, `é`, `a b`, `b\`, `:`, `...`, `.`, `.`, `.`, `.`, `.`}).Draw(t, "odd")
		return odd, "odd-valid"
	}
}

func genProbe(t *rapid.T, tr gen.Tree, kind string) (ops.Op, int, string) {
	if kind != "sublenient" && rapid.IntRange(0, 24).Draw(t, "rootremoval") == 0 {
		// the root by its (valid) name, handed to the operation that walks whatever it is given
		return ops.Op{K: "removeall", P: "."}, 1, "odd-valid"
	}
	name, class := genName(t, tr, kind)
	if kind != "sublenient" && rapid.IntRange(0, 4).Draw(t, "two") == 0 {
		k := rapid.SampledFrom(doubleKinds).Draw(t, "dkind")
		other := gen.Path(t, tr, names, 3, true, "other")
		which := rapid.IntRange(1, 2).Draw(t, "which")
		if which == 1 {
			return ops.Op{K: k, P: name, P2: other}, 1, class
		}
		return ops.Op{K: k, P: other, P2: name}, 2, class
	}
	k := rapid.SampledFrom(singleKinds).Draw(t, "kind")
	if kind == "sublenient" {
		k = "open" // the only operation the view itself implements
	}
	op := ops.Op{K: k, P: name, Perm: 0o755}
	// the OTHER arguments take degenerate values a third of the time (zero permission bits, zero time, empty data, no flags):
	// a fast path keyed on such a value must not come before the name is looked at
	degenerate := rapid.IntRange(0, 2).Draw(t, "degenerate") == 0
	if degenerate {
		op.Perm = 0
	}
	switch k {
	case "openfile":
		op.Flag = gen.Flags(t, "flag")
		if degenerate {
			op.Flag = os.O_RDONLY
		}
		if op.Flag&os.O_WRONLY != 0 || op.Flag&os.O_RDWR != 0 {
			op.Data = []byte("x")
		}
	case "writefile":
		op.Data = []byte("w")
		op.Perm = 0o644
		if degenerate {
			op.Data = []byte{}
		}
	case "chtimes":
		op.Sec = 1_500_000_000
		if degenerate {
			op.Sec = 0 // the zero time.Time
		}
	}
	return op, 1, class
}

func run(t *testing.T, kind string) {
	vf.Check(t, kind, func(rt *rapid.T, rec *vf.Rec) {
		setup := genSetup(rt)
		scratch := subj.NewMem()
		for _, op := range setup {
			_ = ops.ApplyFS(scratch, op)
		}
		snap, _ := ops.SnapFS(scratch)
		tr := gen.TreeOf(snap)
		probe, which, class := genProbe(rt, tr, kind)
		c := Case{Kind: kind, Setup: setup, Probe: probe, Which: which, PQ: strconv.Quote(probe.P), P2Q: strconv.Quote(probe.P2)}
		rec.Step(c)
		rec.Class("name:" + class)
		rec.Class("op:" + probe.K)
		name := probe.P
		if which == 2 {
			name = probe.P2
		}
		if !fs.ValidPath(name) {
			rec.Class("invalid:" + defectClass(name))
			// non-trivial: the nearest valid repair exists in the subject (accepting the name would have had a visible effect)
			repaired := strings.Trim(strings.ReplaceAll(strings.ReplaceAll(name, "//", "/"), "/./", "/"), "/")
			if _, ok := snap[repaired]; ok || repaired == "" || kind == "mount2" && (repaired == "a" || repaired == "a/b") {
				rec.NonTrivial()
			}
		} else {
			rec.Class("valid")
			if class == "odd-valid" {
				rec.NonTrivial()
			}
		}
		if sig, msg := check(c); sig != "" {
			rec.Failf(rt, sig, "%s", msg)
		}
	})
}

func TestMem(t *testing.T)         { run(t, "mem") }
func TestKVPlain(t *testing.T)     { run(t, "kvplain") }
func TestMount2(t *testing.T)      { run(t, "mount2") }
func TestSubMem(t *testing.T)      { run(t, "submem") }
func TestSubMountPt(t *testing.T)  { run(t, "submountpt") }
func TestCache(t *testing.T)       { run(t, "cache") }
func TestTar(t *testing.T)         { run(t, "tar") }
func TestTarBroken(t *testing.T)   { run(t, "tarbroken") }
func TestKVOffline(t *testing.T)   { run(t, "kvoffline") }
func TestTarCanceled(t *testing.T) { run(t, "tarcanceled") }
func TestOSFS(t *testing.T)        { run(t, "osfs") }
func TestSubLenient(t *testing.T)  { run(t, "sublenient") }

func TestReplayAll(t *testing.T) {
	for _, kind := range append(append([]string{}, kinds...), "fuzznames") {
		kind := kind
		t.Run(kind, func(t *testing.T) {
			vf.Replay(t, kind, func(steps []json.RawMessage) (string, string) {
				for _, raw := range steps {
					var c Case
					if err := json.Unmarshal(raw, &c); err != nil {
						return "bad-replay", err.Error()
					}
					if p, err := strconv.Unquote(c.PQ); err == nil {
						c.Probe.P = p
					}
					if p, err := strconv.Unquote(c.P2Q); err == nil {
						c.Probe.P2 = p
					}
					if sig, msg := check(c); sig != "" {
						return sig, msg
					}
				}
				return "", ""
			})
		})
	}
}

var _ = hos.NewFS

// FuzzNames is the native (coverage-guided) fuzz target of the thorough tier: (subject, helper, position, name bytes)
// against a fixed small start state, same oracle as the rapid legs.
func FuzzNames(f *testing.F) {
	seeds := []string{"", "/a", "a/", "a//b", "./a", "a/./b", "..", "a/..", "a/../../sentinel/keep", "\xff", "a/\xffx", "a\\b", "a:b", ".x", "a/b", "a", "."}
	for i, s := range seeds {
		f.Add(uint8(i), uint8(i*3), uint8(i), s)
	}
	setup := []ops.Op{{K: "mkdirall", P: "a/b", Perm: 0o755}, {K: "writefile", P: "a/f", Data: []byte("data"), Perm: 0o644}, {K: "writefile", P: "c", Data: []byte("c"), Perm: 0o600}}
	all := append(append([]string{}, singleKinds...), doubleKinds...)
	f.Fuzz(func(t *testing.T, kindIdx, opIdx, which uint8, name string) {
		if strings.ContainsRune(name, 0) || len(name) > 64 {
			t.Skip()
		}
		kind := kinds[int(kindIdx)%len(kinds)]
		k := all[int(opIdx)%len(all)]
		if kind == "sublenient" {
			k = "open"
		}
		c := Case{Kind: kind, Setup: setup, Which: 1}
		c.Probe = ops.Op{K: k, P: name, Perm: 0o755, Sec: 1_500_000_000}
		switch k {
		case "rename", "symlink":
			if which%2 == 1 {
				c.Which = 2
				c.Probe.P, c.Probe.P2 = "a/f", name
			} else {
				c.Probe.P2 = "zz"
			}
		case "openfile":
			c.Probe.Flag = int(which) & (os.O_RDWR | os.O_WRONLY | os.O_CREATE | os.O_TRUNC | os.O_EXCL | os.O_APPEND)
		case "writefile":
			c.Probe.Data = []byte("w")
		}
		c.PQ, c.P2Q = strconv.Quote(c.Probe.P), strconv.Quote(c.Probe.P2)
		rec := vf.FuzzRec("fuzznames")
		rec.Step(c)
		if !fs.ValidPath(name) {
			rec.NonTrivial()
		}
		sig, msg := check(c)
		rec.FuzzDone()
		if sig != "" {
			rec.FuzzFail(t, sig, "%s", msg)
		}
	})
}
