// C20: the fstest conformance suite accepts the reference and rejects deviants.
//
// The suite type-switches on *testing.T, so it cannot be driven in-process with a fake TB: every evaluation
// re-executes this test binary (TestSuiteChild) with VERIF_DEVIANT=<spec>.
package c20

import (
	_ "embed"
	"encoding/json"
	"errors"
	"fmt"
	"io"
	"os"
	"os/exec"
	"sort"
	"strconv"
	"strings"
	"sync"
	"sync/atomic"
	"syscall"
	"testing"
	"time"

	"github.com/hack-pad/hackpadfs"
	"github.com/hack-pad/hackpadfs/fstest"
	"github.com/hack-pad/hackpadfs/mem"
	hos "github.com/hack-pad/hackpadfs/os"

	"verifharness/internal/vf"
)

func TestMain(m *testing.M) {
	if os.Getenv("VERIF_DEVIANT") != "" {
		code := m.Run()
		dumpTraces()
		os.Exit(code)
	}
	registerProbes()
	vf.Main(m)
}

// ------------------------------------------------------------------ deviation specs: op:kind:trigger

type spec struct {
	Op, Kind, Trigger string
}

func parseSpec(s string) spec {
	p := strings.SplitN(s, ":", 3)
	for len(p) < 3 {
		p = append(p, "")
	}
	return spec{p[0], p[1], p[2]}
}

func (s spec) String() string { return s.Op + ":" + s.Kind + ":" + s.Trigger }

var fsOps = []string{"mkdir", "mkdirall", "openfile", "remove", "rename", "stat", "chmod", "chtimes", "open"}
var fileOps = []string{"f.read", "f.readat", "f.write", "f.writeat", "f.seek", "f.truncate", "f.readdir", "f.stat", "f.close"}

// kindsFor lists the deviation kinds that make sense for an operation.
func kindsFor(op string) []string {
	switch op {
	case "mkdir", "mkdirall":
		return []string{"noop", "twice", "drop", "wrongperm", "wrongerr", "wrappederr", "wrongpath", "gluedpath", "overlap"}
	case "openfile":
		return []string{"drop", "wrongperm", "wrongerr", "wrappederr", "wrongpath", "notrunc", "overlap"}
	case "open":
		return []string{"wrongerr", "wrappederr", "wrongpath", "gluedpath"}
	case "remove":
		return []string{"noop", "wrongerr", "weakerr", "wrappederr", "wrongpath", "gluedpath", "overlap"}
	case "rename":
		return []string{"noop", "leavebehind", "wrongerr", "weakerr", "wrongpath", "wrongnewpath", "gluedpath"}
	case "stat":
		return []string{"wrongsize", "wrongperm", "wrongerr", "wrongname"}
	case "f.stat":
		return []string{"wrongsize", "wrongperm", "wrongerr", "wrongname", "overlap"}
	case "chmod":
		return []string{"noop", "wrongperm", "wrongerr"}
	case "chtimes":
		return []string{"noop", "wrongerr"}
	case "f.read":
		return []string{"wrongbytes", "earlyeof", "wrongn", "wrongerr", "overlap"}
	case "f.readat":
		return []string{"wrongbytes", "earlyeof", "wrongn", "wrongerr"}
	case "f.write":
		return []string{"noop", "twice", "wrongbytes", "wrongn", "wrongerr", "overlap"}
	case "f.writeat":
		return []string{"noop", "twice", "wrongbytes", "wrongn", "wrongerr"}
	case "f.seek":
		return []string{"noop", "wrongn", "wrongerr"}
	case "f.truncate":
		return []string{"noop", "wrongn", "wrongerr"}
	case "f.readdir":
		return []string{"dropentry", "dupentry", "wrongkind", "wrongerr", "earlyeof"}
	case "f.close":
		return []string{"wrongerr"}
	}
	return nil
}

var triggers = []string{"always", "k1", "k2", "k3", "name=foo", "name=bar"}

// argTriggers: argument classes per operation. A deviant with such a trigger misbehaves only for calls whose arguments
// fall in the class (Truncate only when shrinking, Seek only relative to the end, OpenFile only with O_EXCL, ...):
// the suite must exercise -- and check -- each class it exercises, not merely each method.
var argTriggers = map[string][]string{
	"openfile":   {"arg=rdonly", "arg=wronly", "arg=rdwr", "arg=create", "arg=excl", "arg=trunc", "arg=append"},
	"f.truncate": {"arg=neg", "arg=zero", "arg=shrink", "arg=grow"},
	"f.seek":     {"arg=start", "arg=cur", "arg=end", "arg=negoff"},
	"f.readat":   {"arg=negoff", "arg=off0", "arg=pastend"},
	"f.writeat":  {"arg=negoff", "arg=off0", "arg=pastend"},
	"f.readdir":  {"arg=all", "arg=paged"},
	"f.read":     {"arg=empty"},
	"f.write":    {"arg=empty"},
}

func allSpecs(trigs []string) []spec {
	var out []spec
	for _, op := range append(append([]string{}, fsOps...), fileOps...) {
		for _, k := range kindsFor(op) {
			if k == "overlap" {
				// deviates only while another call of the same operation on the same file system is in flight
				out = append(out, spec{op, k, "always"})
				continue
			}
			for _, tr := range trigs {
				out = append(out, spec{op, k, tr})
			}
			if len(trigs) > 1 {
				for _, tr := range argTriggers[op] {
					out = append(out, spec{op, k, tr})
				}
			}
		}
	}
	return out
}

func flagClasses(flag int) []string {
	var c []string
	switch flag & (hackpadfs.FlagReadOnly | hackpadfs.FlagWriteOnly | hackpadfs.FlagReadWrite) {
	case hackpadfs.FlagWriteOnly:
		c = append(c, "wronly")
	case hackpadfs.FlagReadWrite:
		c = append(c, "rdwr")
	default:
		c = append(c, "rdonly")
	}
	for _, x := range []struct {
		f int
		n string
	}{{hackpadfs.FlagCreate, "create"}, {hackpadfs.FlagExclusive, "excl"}, {hackpadfs.FlagTruncate, "trunc"}, {hackpadfs.FlagAppend, "append"}} {
		if flag&x.f != 0 {
			c = append(c, x.n)
		}
	}
	return c
}

func (f *devFile) size() int64 {
	if fi, err := f.inner.Stat(); err == nil {
		return fi.Size()
	}
	return 0
}

func (f *devFile) offClasses(off int64) []string {
	switch {
	case off < 0:
		return []string{"negoff"}
	case off == 0:
		return []string{"off0"}
	case off > f.size():
		return []string{"pastend"}
	}
	return nil
}

func emptyClass(p []byte) []string {
	if len(p) == 0 {
		return []string{"empty"}
	}
	return nil
}

// ------------------------------------------------------------------ the deviant / recording wrapper (child side)

var (
	traceMu sync.Mutex
	traces  = map[string][]string{}
)

func record(scenario, line string) {
	traceMu.Lock()
	traces[scenario] = append(traces[scenario], line)
	traceMu.Unlock()
}

func dumpTraces() {
	out := os.Getenv("VERIF_TRACE_OUT")
	if out == "" {
		return
	}
	traceMu.Lock()
	defer traceMu.Unlock()
	for k, v := range traces {
		if strings.Contains(k, "concurrent") {
			sort.Strings(v) // goroutine order is not part of the behaviour
			traces[k] = v
		}
	}
	b, _ := json.Marshal(traces)
	_ = os.WriteFile(out, b, 0o644)
}

type devFS struct {
	inner    *mem.FS
	sp       spec
	scenario string
	mu       sync.Mutex
	counts   map[string]int
	inflight int32
}

// enter implements the "overlap" deviation: every call of the deviant's operation is held for a moment; if another call
// of the same operation on the same file system is in flight meanwhile, the call fails with ErrPermission instead of
// being carried out. Sequential use is indistinguishable from the reference; only scenarios whose goroutines really run
// at the same time see it.
func (d *devFS) enter(op, name string) (deviate error, leave func()) {
	if d.sp.Kind != "overlap" || d.sp.Op != op {
		return nil, func() {}
	}
	n := atomic.AddInt32(&d.inflight, 1)
	time.Sleep(4 * time.Millisecond)
	leave = func() { atomic.AddInt32(&d.inflight, -1) }
	if n > 1 || atomic.LoadInt32(&d.inflight) > 1 {
		return &hackpadfs.PathError{Op: strings.TrimPrefix(op, "f."), Path: name, Err: hackpadfs.ErrPermission}, leave
	}
	return nil, leave
}

func errStr(err error) string {
	if err == nil {
		return "nil"
	}
	var paths string
	switch e := err.(type) {
	case *hackpadfs.PathError:
		paths = "PathError(" + e.Op + "," + e.Path + ")"
	case *hackpadfs.LinkError:
		paths = "LinkError(" + e.Op + "," + e.Old + "," + e.New + ")"
	default:
		paths = fmt.Sprintf("%T", err)
	}
	var cls []string
	for _, s := range []struct {
		n string
		e error
	}{{"NotExist", hackpadfs.ErrNotExist}, {"Exist", hackpadfs.ErrExist}, {"IsDir", hackpadfs.ErrIsDir}, {"NotDir", hackpadfs.ErrNotDir}, {"NotEmpty", hackpadfs.ErrNotEmpty},
		{"Invalid", hackpadfs.ErrInvalid}, {"Closed", hackpadfs.ErrClosed}, {"NotImplemented", hackpadfs.ErrNotImplemented}, {"Permission", hackpadfs.ErrPermission}, {"EOF", io.EOF}} {
		if errors.Is(err, s.e) {
			cls = append(cls, s.n)
		}
	}
	if len(cls) == 0 {
		cls = []string{err.Error()}
	}
	return paths + "[" + strings.Join(cls, "+") + "]"
}

func infoStr(fi hackpadfs.FileInfo) string {
	if fi == nil {
		return "nil"
	}
	size := fi.Size()
	if fi.IsDir() {
		size = 0
	}
	// modification time: "recent" (within a few seconds of now: set by creation or a write) or "set" (older: put there by
	// Chtimes); the exact value would differ from run to run
	mt := "recent"
	if d := time.Since(fi.ModTime()); d > 20*time.Second || d < -20*time.Second {
		mt = "set"
	}
	return fmt.Sprintf("{%s %v size=%d mtime=%s}", fi.Name(), fi.Mode(), size, mt)
}

// fires reports whether the deviation applies to this call of op on name.
func (d *devFS) fires(op, name string, args ...string) bool {
	if d.sp.Op != op {
		return false
	}
	if strings.HasPrefix(d.sp.Trigger, "arg=") {
		// argument-class trigger: the deviation applies only to calls whose arguments fall in the class
		for _, a := range args {
			if a == d.sp.Trigger[4:] {
				return true
			}
		}
		return false
	}
	d.mu.Lock()
	d.counts[op]++
	n := d.counts[op]
	d.mu.Unlock()
	tr := d.sp.Trigger
	switch {
	case tr == "always" || tr == "":
		return true
	case strings.HasPrefix(tr, "k"):
		k, _ := strconv.Atoi(tr[1:])
		return n == k
	case strings.HasPrefix(tr, "name="):
		return strings.Contains(name, tr[5:])
	}
	return false
}

func wrongErr(err error) error {
	if err == nil {
		return err
	}
	var repl error = hackpadfs.ErrInvalid
	switch {
	case errors.Is(err, hackpadfs.ErrNotExist):
		repl = hackpadfs.ErrExist
	case errors.Is(err, hackpadfs.ErrExist):
		repl = hackpadfs.ErrNotExist
	case errors.Is(err, hackpadfs.ErrInvalid):
		repl = hackpadfs.ErrNotExist
	case errors.Is(err, hackpadfs.ErrNotImplemented):
		return err // substituting "not implemented" is not a deviation: the suite skips by design
	case err == io.EOF:
		return io.ErrUnexpectedEOF
	}
	switch e := err.(type) {
	case *hackpadfs.PathError:
		return &hackpadfs.PathError{Op: e.Op, Path: e.Path, Err: repl}
	case *hackpadfs.LinkError:
		return &hackpadfs.LinkError{Op: e.Op, Old: e.Old, New: e.New, Err: repl}
	}
	return repl
}

// weakerErr replaces an error by one that the EXPECTED error "is" but that is not the expected error: syscall.ENOTEMPTY
// (ErrNotEmpty) matches fs.ErrExist through Errno.Is, not the other way round. A suite that compares with errors.Is must
// ask errors.Is(actual, expected); asked the wrong way round, it accepts ErrExist where ErrNotEmpty is required.
// wrappedErr hides the right *PathError inside another error type: errors.As / errors.Is still find it, a type assertion or
// type switch (what callers of this library use, and what the suite promises to check: "is a *PathError") does not.
type errWrapper struct{ inner error }

func (w *errWrapper) Error() string { return w.inner.Error() }
func (w *errWrapper) Unwrap() error { return w.inner }

func wrappedErr(err error) error {
	if _, ok := err.(*hackpadfs.PathError); ok {
		return &errWrapper{err}
	}
	return err
}

// gluedPath puts a prefix in front of the error's paths WITHOUT a separator ("mntfoo" for "foo"). The suite is run with
// Constraints.AllowErrPathPrefix for these deviants: that option allows a directory prefix ("mnt/foo"), not this.
func gluedPath(err error) error {
	switch e := err.(type) {
	case *hackpadfs.PathError:
		return &hackpadfs.PathError{Op: e.Op, Path: "mnt" + e.Path, Err: e.Err}
	case *hackpadfs.LinkError:
		return &hackpadfs.LinkError{Op: e.Op, Old: "mnt" + e.Old, New: "mnt" + e.New, Err: e.Err}
	}
	return err
}

func weakerErr(err error) error {
	if err == nil || !errors.Is(err, hackpadfs.ErrNotEmpty) {
		return err
	}
	switch e := err.(type) {
	case *hackpadfs.PathError:
		return &hackpadfs.PathError{Op: e.Op, Path: e.Path, Err: hackpadfs.ErrExist}
	case *hackpadfs.LinkError:
		return &hackpadfs.LinkError{Op: e.Op, Old: e.Old, New: e.New, Err: hackpadfs.ErrExist}
	}
	return hackpadfs.ErrExist
}

func wrongPath(err error) error {
	switch e := err.(type) {
	case *hackpadfs.PathError:
		return &hackpadfs.PathError{Op: e.Op, Path: "inner/" + e.Path, Err: e.Err}
	case *hackpadfs.LinkError:
		return &hackpadfs.LinkError{Op: e.Op, Old: "inner/" + e.Old, New: e.New, Err: e.Err}
	}
	return err
}

func (d *devFS) Open(name string) (hackpadfs.File, error) {
	f, err := d.inner.Open(name)
	if d.fires("open", name) {
		switch d.sp.Kind {
		case "wrongerr":
			err = wrongErr(err)
		case "wrappederr":
			err = wrappedErr(err)
		case "gluedpath":
			err = gluedPath(err)
		case "wrongpath":
			err = wrongPath(err)
		}
	}
	record(d.scenario, fmt.Sprintf("Open(%q)=%s", name, errStr(err)))
	if err != nil {
		return nil, err
	}
	return &devFile{inner: f, d: d, name: name}, nil
}

func (d *devFS) OpenFile(name string, flag int, perm hackpadfs.FileMode) (hackpadfs.File, error) {
	dev, leave := d.enter("openfile", name)
	defer leave()
	if dev != nil {
		record(d.scenario, fmt.Sprintf("OpenFile(%q,%#x,%v)=%s", name, flag, perm, errStr(dev)))
		return nil, dev
	}
	fire := d.fires("openfile", name, flagClasses(flag)...)
	if fire && d.sp.Kind == "wrongperm" {
		perm ^= 0o111
	}
	if fire && d.sp.Kind == "notrunc" {
		flag &^= hackpadfs.FlagTruncate
	}
	f, err := d.inner.OpenFile(name, flag, perm)
	if fire {
		switch d.sp.Kind {
		case "wrongerr":
			err = wrongErr(err)
		case "wrappederr":
			err = wrappedErr(err)
		case "gluedpath":
			err = gluedPath(err)
		case "wrongpath":
			err = wrongPath(err)
		case "drop":
			if err == nil && flag&hackpadfs.FlagCreate != 0 {
				_ = d.inner.Remove(name)
			}
		}
	}
	record(d.scenario, fmt.Sprintf("OpenFile(%q,%#x,%v)=%s", name, flag, perm, errStr(err)))
	if err != nil {
		return nil, err
	}
	return &devFile{inner: f, d: d, name: name}, nil
}

func (d *devFS) mkdirLike(op, name string, perm hackpadfs.FileMode, call func(string, hackpadfs.FileMode) error) error {
	dev, leave := d.enter(op, name)
	defer leave()
	if dev != nil {
		record(d.scenario, fmt.Sprintf("%s(%q,%v)=%s", op, name, perm, errStr(dev)))
		return dev
	}
	fire := d.fires(op, name)
	var err error
	switch {
	case fire && d.sp.Kind == "noop":
		err = nil
	case fire && d.sp.Kind == "wrongperm":
		err = call(name, perm^0o111)
	case fire && d.sp.Kind == "twice":
		err = call(name, perm)
		_ = call(name, perm)
	default:
		err = call(name, perm)
	}
	if fire {
		switch d.sp.Kind {
		case "wrongerr":
			err = wrongErr(err)
		case "wrappederr":
			err = wrappedErr(err)
		case "gluedpath":
			err = gluedPath(err)
		case "wrongpath":
			err = wrongPath(err)
		case "drop":
			if err == nil {
				_ = d.inner.Remove(name)
			}
		}
	}
	record(d.scenario, fmt.Sprintf("%s(%q,%v)=%s", op, name, perm, errStr(err)))
	return err
}

func (d *devFS) Mkdir(name string, perm hackpadfs.FileMode) error {
	return d.mkdirLike("mkdir", name, perm, d.inner.Mkdir)
}

func (d *devFS) MkdirAll(name string, perm hackpadfs.FileMode) error {
	return d.mkdirLike("mkdirall", name, perm, d.inner.MkdirAll)
}

func (d *devFS) Remove(name string) error {
	dev, leave := d.enter("remove", name)
	defer leave()
	if dev != nil {
		record(d.scenario, fmt.Sprintf("Remove(%q)=%s", name, errStr(dev)))
		return dev
	}
	fire := d.fires("remove", name)
	var err error
	if fire && d.sp.Kind == "noop" {
		_, err = d.inner.Stat(name)
		if err != nil {
			err = d.inner.Remove(name)
		}
	} else {
		err = d.inner.Remove(name)
	}
	if fire {
		switch d.sp.Kind {
		case "wrongerr":
			err = wrongErr(err)
		case "wrappederr":
			err = wrappedErr(err)
		case "gluedpath":
			err = gluedPath(err)
		case "weakerr":
			err = weakerErr(err)
		case "wrongpath":
			err = wrongPath(err)
		}
	}
	record(d.scenario, fmt.Sprintf("Remove(%q)=%s", name, errStr(err)))
	return err
}

func (d *devFS) Rename(oldname, newname string) error {
	fire := d.fires("rename", oldname)
	var err error
	switch {
	case fire && d.sp.Kind == "noop":
		// silently does nothing where the operation would have worked; where it fails anyway, fail the same way
		if _, err = d.inner.Stat(oldname); err != nil {
			err = d.inner.Rename(oldname, newname)
		}
	case fire && d.sp.Kind == "leavebehind":
		data, rerr := hackpadfs.ReadFile(d.inner, oldname)
		fi, serr := d.inner.Stat(oldname)
		err = d.inner.Rename(oldname, newname)
		if err == nil && rerr == nil && serr == nil && !fi.IsDir() {
			_ = hackpadfs.WriteFullFile(d.inner, oldname, data, fi.Mode().Perm())
		} else if err == nil && serr == nil && fi.IsDir() {
			_ = d.inner.Mkdir(oldname, fi.Mode().Perm())
		}
	default:
		err = d.inner.Rename(oldname, newname)
	}
	if fire {
		switch d.sp.Kind {
		case "wrongerr":
			err = wrongErr(err)
		case "weakerr":
			err = weakerErr(err)
		case "wrongpath":
			err = wrongPath(err)
		case "gluedpath":
			err = gluedPath(err)
		case "wrongnewpath":
			// only the SECOND path of the two-path error is off (as a layer that strips its prefix from one of them would leave it)
			if e, ok := err.(*hackpadfs.LinkError); ok {
				err = &hackpadfs.LinkError{Op: e.Op, Old: e.Old, New: "inner/" + e.New, Err: e.Err}
			}
		}
	}
	record(d.scenario, fmt.Sprintf("Rename(%q,%q)=%s", oldname, newname, errStr(err)))
	return err
}

type devInfo struct {
	hackpadfs.FileInfo
	sizeDelta int64
	modeXor   hackpadfs.FileMode
	name      string
}

func (i devInfo) Size() int64              { return i.FileInfo.Size() + i.sizeDelta }
func (i devInfo) Mode() hackpadfs.FileMode { return i.FileInfo.Mode() ^ i.modeXor }
func (i devInfo) Name() string {
	if i.name != "" {
		return i.name
	}
	return i.FileInfo.Name()
}

func deviateInfo(kind string, fi hackpadfs.FileInfo, err error) (hackpadfs.FileInfo, error) {
	switch kind {
	case "wrongerr":
		return fi, wrongErr(err)
	case "wrongsize":
		if err == nil && !fi.IsDir() {
			return devInfo{FileInfo: fi, sizeDelta: 1}, nil
		}
	case "wrongperm":
		if err == nil {
			return devInfo{FileInfo: fi, modeXor: 0o111}, nil
		}
	case "wrongname":
		if err == nil {
			return devInfo{FileInfo: fi, name: fi.Name() + "x"}, nil
		}
	}
	return fi, err
}

func (d *devFS) Stat(name string) (hackpadfs.FileInfo, error) {
	fi, err := d.inner.Stat(name)
	if d.fires("stat", name) {
		fi, err = deviateInfo(d.sp.Kind, fi, err)
	}
	if err != nil {
		fi = nil
	}
	record(d.scenario, fmt.Sprintf("Stat(%q)=%s,%s", name, infoStr(fi), errStr(err)))
	return fi, err
}

func (d *devFS) Chmod(name string, mode hackpadfs.FileMode) error {
	fire := d.fires("chmod", name)
	var err error
	switch {
	case fire && d.sp.Kind == "noop":
		if _, err = d.inner.Stat(name); err != nil {
			err = d.inner.Chmod(name, mode)
		}
	case fire && d.sp.Kind == "wrongperm":
		err = d.inner.Chmod(name, mode^0o111)
	default:
		err = d.inner.Chmod(name, mode)
	}
	if fire && d.sp.Kind == "wrongerr" {
		err = wrongErr(err)
	}
	record(d.scenario, fmt.Sprintf("Chmod(%q,%v)=%s", name, mode, errStr(err)))
	return err
}

func (d *devFS) Chtimes(name string, atime, mtime time.Time) error {
	fire := d.fires("chtimes", name)
	var err error
	if fire && d.sp.Kind == "noop" {
		if _, err = d.inner.Stat(name); err != nil {
			err = d.inner.Chtimes(name, atime, mtime)
		}
	} else {
		err = d.inner.Chtimes(name, atime, mtime)
	}
	if fire && d.sp.Kind == "wrongerr" {
		err = wrongErr(err)
	}
	record(d.scenario, fmt.Sprintf("Chtimes(%q)=%s", name, errStr(err)))
	return err
}

// devFile forwards every optional file interface through the helpers (an inner handle lacking one answers ErrNotImplemented, as unwrapped).
type devFile struct {
	inner hackpadfs.File
	d     *devFS
	name  string
}

func (f *devFile) rec(format string, args ...any) { record(f.d.scenario, fmt.Sprintf(format, args...)) }

func (f *devFile) Stat() (hackpadfs.FileInfo, error) {
	dev, leave := f.d.enter("f.stat", f.name)
	defer leave()
	if dev != nil {
		f.rec("f.Stat(%q)=%s,%s", f.name, "nil", errStr(dev))
		return nil, dev
	}
	fi, err := f.inner.Stat()
	if f.d.fires("f.stat", f.name) {
		fi, err = deviateInfo(f.d.sp.Kind, fi, err)
	}
	if err != nil {
		fi = nil
	}
	f.rec("f.Stat(%q)=%s,%s", f.name, infoStr(fi), errStr(err))
	return fi, err
}

func (f *devFile) readLike(op string, p []byte, args []string, call func([]byte) (int, error)) (int, error) {
	dev, leave := f.d.enter(op, f.name)
	defer leave()
	if dev != nil {
		f.rec("%s(%q,%d)=%d,%q,%s", op, f.name, len(p), 0, "", errStr(dev))
		return 0, dev
	}
	n, err := call(p)
	if f.d.fires(op, f.name, args...) {
		switch f.d.sp.Kind {
		case "wrongbytes":
			if n > 0 {
				p[0] ^= 0x20
			}
		case "earlyeof":
			if n > 0 {
				n--
				err = io.EOF
			}
		case "wrongn":
			if n > 0 {
				n--
			}
		case "wrongerr":
			err = wrongErr(err)
		}
	}
	f.rec("%s(%q,%d)=%d,%q,%s", op, f.name, len(p), n, p[:max(n, 0)], errStr(err))
	return n, err
}

func (f *devFile) Read(p []byte) (int, error) {
	return f.readLike("f.read", p, emptyClass(p), f.inner.Read)
}
func (f *devFile) ReadAt(p []byte, off int64) (int, error) {
	return f.readLike("f.readat", p, f.offClasses(off), func(b []byte) (int, error) { return hackpadfs.ReadAtFile(f.inner, b, off) })
}

func (f *devFile) writeLike(op string, p []byte, args []string, call func([]byte) (int, error)) (int, error) {
	dev, leave := f.d.enter(op, f.name)
	defer leave()
	if dev != nil {
		f.rec("%s(%q,%q)=%d,%s", op, f.name, p, 0, errStr(dev))
		return 0, dev
	}
	fire := f.d.fires(op, f.name, args...)
	var n int
	var err error
	switch {
	case fire && f.d.sp.Kind == "noop":
		n, err = len(p), nil
	case fire && f.d.sp.Kind == "twice":
		n, err = call(p)
		if err == nil && op == "f.write" {
			_, _ = call(p)
		}
	case fire && f.d.sp.Kind == "wrongbytes" && len(p) > 0:
		q := append([]byte(nil), p...)
		q[0] ^= 0x20
		n, err = call(q)
	default:
		n, err = call(p)
	}
	if fire {
		switch f.d.sp.Kind {
		case "wrongn":
			if n > 0 {
				n--
			}
		case "wrongerr":
			err = wrongErr(err)
		}
	}
	f.rec("%s(%q,%q)=%d,%s", op, f.name, p, n, errStr(err))
	return n, err
}

func (f *devFile) Write(p []byte) (int, error) {
	return f.writeLike("f.write", p, emptyClass(p), func(b []byte) (int, error) { return hackpadfs.WriteFile(f.inner, b) })
}
func (f *devFile) WriteAt(p []byte, off int64) (int, error) {
	return f.writeLike("f.writeat", p, f.offClasses(off), func(b []byte) (int, error) { return hackpadfs.WriteAtFile(f.inner, b, off) })
}

func (f *devFile) Seek(off int64, whence int) (int64, error) {
	seekArgs := []string{map[int]string{io.SeekStart: "start", io.SeekCurrent: "cur", io.SeekEnd: "end"}[whence]}
	if off < 0 {
		seekArgs = append(seekArgs, "negoff")
	}
	fire := f.d.fires("f.seek", f.name, seekArgs...)
	var n int64
	var err error
	if fire && f.d.sp.Kind == "noop" {
		n, err = hackpadfs.SeekFile(f.inner, 0, io.SeekCurrent)
	} else {
		n, err = hackpadfs.SeekFile(f.inner, off, whence)
	}
	if fire {
		switch f.d.sp.Kind {
		case "wrongn":
			if err == nil {
				n++
			}
		case "wrongerr":
			err = wrongErr(err)
		}
	}
	f.rec("f.seek(%q,%d,%d)=%d,%s", f.name, off, whence, n, errStr(err))
	return n, err
}

func (f *devFile) Truncate(size int64) error {
	truncArg := "grow"
	switch cur := f.size(); {
	case size < 0:
		truncArg = "neg"
	case size == 0:
		truncArg = "zero"
	case size < cur:
		truncArg = "shrink"
	}
	fire := f.d.fires("f.truncate", f.name, truncArg)
	var err error
	switch {
	case fire && f.d.sp.Kind == "noop":
		err = nil
	case fire && f.d.sp.Kind == "wrongn" && size >= 0:
		err = hackpadfs.TruncateFile(f.inner, size+1)
	default:
		err = hackpadfs.TruncateFile(f.inner, size)
	}
	if fire && f.d.sp.Kind == "wrongerr" {
		err = wrongErr(err)
	}
	f.rec("f.truncate(%q,%d)=%s", f.name, size, errStr(err))
	return err
}

type devEntry struct {
	hackpadfs.DirEntry
	flipKind bool
}

func (e devEntry) IsDir() bool { return e.DirEntry.IsDir() != e.flipKind }
func (e devEntry) Type() hackpadfs.FileMode {
	if e.flipKind {
		return e.DirEntry.Type() ^ hackpadfs.ModeDir
	}
	return e.DirEntry.Type()
}

func (f *devFile) ReadDir(n int) ([]hackpadfs.DirEntry, error) {
	des, err := hackpadfs.ReadDirFile(f.inner, n)
	readdirArg := "paged"
	if n <= 0 {
		readdirArg = "all"
	}
	if f.d.fires("f.readdir", f.name, readdirArg) {
		switch f.d.sp.Kind {
		case "dropentry":
			if len(des) > 0 {
				des = des[1:]
			}
		case "dupentry":
			if len(des) > 0 {
				des = append(des, des[0])
			}
		case "wrongkind":
			if len(des) > 0 {
				des[0] = devEntry{DirEntry: des[0], flipKind: true}
			}
		case "wrongerr":
			err = wrongErr(err)
		case "earlyeof":
			if err == nil && n > 0 {
				err = io.EOF
			}
		}
	}
	var names []string
	for _, de := range des {
		names = append(names, fmt.Sprintf("%s:%v", de.Name(), de.IsDir()))
	}
	sort.Strings(names)
	f.rec("f.readdir(%q,%d)=%v,%s", f.name, n, names, errStr(err))
	return des, err
}

func (f *devFile) Chmod(mode hackpadfs.FileMode) error { return hackpadfs.ChmodFile(f.inner, mode) }
func (f *devFile) Sync() error                         { return hackpadfs.SyncFile(f.inner) }

func (f *devFile) Close() error {
	err := f.inner.Close()
	if f.d.fires("f.close", f.name) && f.d.sp.Kind == "wrongerr" {
		err = wrongErr(err)
	}
	f.rec("f.close(%q)=%s", f.name, errStr(err))
	return err
}

// TestSuiteChild runs the conformance suite against the deviant named by VERIF_DEVIANT ("none", "os", or op:kind:trigger).
func TestSuiteChild(t *testing.T) {
	specStr := os.Getenv("VERIF_DEVIANT")
	if specStr == "" {
		t.Skip("child mode only")
	}
	if specStr == "os" {
		syscall.Umask(0) // like the repository's own os.FS test: the suite compares permission bits of created files
		dir := t.TempDir()
		root, err := hos.NewFS().Sub(strings.TrimPrefix(dir, "/"))
		if err != nil {
			t.Fatal(err)
		}
		opts := fstest.FSOptions{Name: "osfs", TestFS: func(tb testing.TB) fstest.SetupFS {
			sub := strings.NewReplacer("/", "_", " ", "_").Replace(tb.Name())
			if err := hackpadfs.MkdirAll(root, sub, 0o700); err != nil {
				tb.Fatal(err)
			}
			s, err := hackpadfs.Sub(root, sub)
			if err != nil {
				tb.Fatal(err)
			}
			return s.(fstest.SetupFS)
		}}
		fstest.FS(t, opts)
		fstest.File(t, opts)
		return
	}
	sp := parseSpec(specStr)
	opts := fstest.FSOptions{Name: "dev", TestFS: func(tb testing.TB) fstest.SetupFS {
		inner, err := mem.NewFS()
		if err != nil {
			tb.Fatal(err)
		}
		return &devFS{inner: inner, sp: sp, scenario: tb.Name(), counts: map[string]int{}}
	}}
	if sp.Kind == "gluedpath" {
		// the option under which a file system may name a directory prefix in its error paths (a mount or Sub layer)
		opts.Constraints.AllowErrPathPrefix = true
	}
	fstest.FS(t, opts)
	fstest.File(t, opts)
}

// ------------------------------------------------------------------ parent side

type childResult struct {
	spec     string
	exit     int
	timedOut bool
	traces   map[string][]string
	out      string
}

func runChild(specStr string, parallel int, maxprocs int) childResult {
	tmp, err := os.CreateTemp("", "c20trace-*.json")
	if err != nil {
		panic(err)
	}
	_ = tmp.Close()
	defer os.Remove(tmp.Name())
	cmd := exec.Command(os.Args[0], "-test.run", "^TestSuiteChild$", "-test.count=1", "-test.timeout=60s", fmt.Sprintf("-test.parallel=%d", parallel))
	cmd.Env = append(os.Environ(), "VERIF_DEVIANT="+specStr, "VERIF_TRACE_OUT="+tmp.Name(), fmt.Sprintf("GOMAXPROCS=%d", maxprocs))
	outB, err := cmd.CombinedOutput()
	r := childResult{spec: specStr, out: string(outB)}
	if err != nil {
		r.exit = 1
		if ee, ok := err.(*exec.ExitError); ok {
			r.exit = ee.ExitCode()
		}
		if strings.Contains(r.out, "test timed out") {
			r.timedOut = true
		}
	}
	if b, err := os.ReadFile(tmp.Name()); err == nil {
		_ = json.Unmarshal(b, &r.traces)
	}
	return r
}

// stability of each scenario's trace across repeated reference runs: "stable" (identical), "multiset" (identical after
// sorting: the scenario runs parallel sub-tests on one FS), "unstable" (ignored).
var stability = map[string]string{}

func sortedCopy(v []string) []string {
	c := append([]string(nil), v...)
	sort.Strings(c)
	return c
}

func computeStability(runs []map[string][]string) {
	for k := range runs[0] {
		st := "stable"
		for _, r := range runs[1:] {
			if strings.Join(r[k], "\n") != strings.Join(runs[0][k], "\n") {
				st = "multiset"
			}
		}
		if st == "multiset" {
			for _, r := range runs[1:] {
				if strings.Join(sortedCopy(r[k]), "\n") != strings.Join(sortedCopy(runs[0][k]), "\n") {
					st = "unstable"
				}
			}
		}
		stability[k] = st
	}
}

// diffScenarios lists the scenarios whose recorded results differ, split into deterministic and concurrent ones.
func diffScenarios(ref, got map[string][]string) (det, conc []string) {
	names := map[string]bool{}
	for k := range ref {
		names[k] = true
	}
	for k := range got {
		names[k] = true
	}
	for k := range names {
		a, b := ref[k], got[k]
		if stability[k] == "unstable" {
			continue
		}
		// always compared as multisets: several scenarios run parallel sub-tests on one FS, and the order in which
		// their calls are recorded varies rarely enough that a few reference runs do not reveal it
		a, b = sortedCopy(a), sortedCopy(b)
		if strings.Join(a, "\n") != strings.Join(b, "\n") {
			if strings.Contains(k, "concurrent") || strings.HasSuffix(k, "/file.ReadAt") {
				// scenarios whose goroutines / parallel sub-tests share one FS: which of them a call-count trigger hits is
				// decided by the runtime's scheduling, so exposure there is not deterministic
				conc = append(conc, k)
			} else {
				det = append(det, k)
			}
		}
	}
	sort.Strings(det)
	sort.Strings(conc)
	return
}

var (
	refOnce sync.Once
	refRes  childResult
)

func reference() childResult {
	refOnce.Do(func() {
		refRes = runChild("none::", 16, 16)
		runs := []map[string][]string{refRes.traces}
		for i := 0; i < 5; i++ {
			runs = append(runs, runChild("none::", 16, 16).traces)
		}
		computeStability(runs)
	})
	return refRes
}

type verdict struct {
	Spec     string   `json:"spec"`
	Class    string   `json:"class"` // trivial, concurrent-only, killed, survivor
	Differs  []string `json:"differs,omitempty"`
	ExitCode int      `json:"exit"`
}

func judgeSpec(sp spec) verdict {
	ref := reference()
	r := runChild(sp.String(), 16, 16)
	det, conc := diffScenarios(ref.traces, r.traces)
	v := verdict{Spec: sp.String(), ExitCode: r.exit, Differs: det}
	switch {
	case sp.Kind == "overlap" && len(det)+len(conc) > 0:
		// the deviation exists only while calls overlap (and every call is held for a moment, so overlapping goroutines
		// do overlap): here the concurrent scenarios are the ones that count
		v.Differs = append(append([]string{}, det...), conc...)
		if r.exit != 0 {
			v.Class = "killed"
		} else {
			v.Class = "survivor"
		}
	case len(det) == 0 && len(conc) == 0:
		v.Class = "trivial"
	case len(det) == 0 && (strings.HasPrefix(sp.Trigger, "k") || !onlyReadAt(conc)):
		v.Class = "concurrent-only"
	case len(det) == 0 && r.exit != 0:
		v.Class = "killed"
	case len(det) == 0:
		v.Class = "survivor"
		v.Differs = conc
	case r.exit != 0:
		v.Class = "killed"
	default:
		v.Class = "survivor"
	}
	if len(v.Differs) > 4 {
		v.Differs = v.Differs[:4]
	}
	return v
}

// onlyReadAt: the differing scenarios are the file.ReadAt ones (parallel sub-tests, but a deviation that does not
// depend on a call count hits them deterministically).
func onlyReadAt(conc []string) bool {
	for _, c := range conc {
		if !strings.HasSuffix(c, "/file.ReadAt") {
			return false
		}
	}
	return len(conc) > 0
}

// sigOf: a survivor is identified by operation and deviation kind; one that deviates only for an argument class also by that class.
func sigOf(sp spec) string {
	if strings.HasPrefix(sp.Trigger, "arg=") {
		return "C20:survivor:" + sp.Op + ":" + sp.Kind + ":" + sp.Trigger
	}
	return "C20:survivor:" + sp.Op + ":" + sp.Kind
}

// TestReference: the suite accepts mem.FS (through the recording wrapper without a deviation) and os.FS, repeatedly and at
// different parallelism settings, and its recorded behaviour is the same each time (verdict depends only on the FS).
func TestReference(t *testing.T) {
	type run struct {
		spec      string
		par, proc int
	}
	runs := []run{{"none::", 16, 16}, {"none::", 1, 1}, {"none::", 16, 1}, {"none::", 1, 16}, {"none::", 16, 16}, {"os", 16, 16}, {"os", 1, 1}, {"os", 16, 16}}
	var first map[string][]string
	reference()
	vf.Each(t, "reference", len(runs), true, func(i int, t *testing.T, rec *vf.Rec) {
		r := runChild(runs[i].spec, runs[i].par, runs[i].proc)
		rec.Step(map[string]any{"fs": runs[i].spec, "parallel": runs[i].par, "gomaxprocs": runs[i].proc, "exit": r.exit, "scenarios": len(r.traces)})
		rec.NonTrivial()
		if r.exit != 0 {
			rec.Failf(t, "C20 reference-rejected:"+runs[i].spec, "the suite fails on the reference file system %s (parallel=%d GOMAXPROCS=%d):\n%s", runs[i].spec, runs[i].par, runs[i].proc, tail(r.out))
		}
		if runs[i].spec == "none::" {
			if first == nil {
				first = r.traces
			} else if det, _ := diffScenarios(first, r.traces); len(det) > 0 {
				rec.Failf(t, "C20 reference-nondeterministic", "the calls the suite makes on the same file system differ between runs in scenarios %v", det)
			}
		}
	})
}

func tail(s string) string {
	if len(s) > 1500 {
		return s[len(s)-1500:]
	}
	return s
}

func runSpecs(t *testing.T, leg string, specs []spec, exhaustive bool) {
	verdicts := make([]verdict, len(specs))
	var wg sync.WaitGroup
	sem := make(chan struct{}, 16)
	reference()
	for i := range specs {
		i := i
		wg.Add(1)
		sem <- struct{}{}
		go func() {
			defer wg.Done()
			defer func() { <-sem }()
			verdicts[i] = judgeSpec(specs[i])
		}()
	}
	wg.Wait()
	vf.Each(t, leg, len(specs), exhaustive, func(i int, t *testing.T, rec *vf.Rec) {
		v := verdicts[i]
		rec.Step(v)
		rec.Class("class:" + v.Class)
		if v.Class == "killed" || v.Class == "survivor" {
			rec.NonTrivial()
		}
		if v.Class == "survivor" && expectedKilled()[specs[i].String()] {
			// ratchet first: this very deviant was rejected at the pinned commit. That its (operation, kind) class has
			// listed survivors under OTHER triggers does not cover it.
			rec.Failf(t, "C20:regressed:"+specs[i].String(), "deviant %s was rejected by the suite at the pinned commit; now it changes what the suite observes in scenarios %v, yet the suite reports no failure", v.Spec, v.Differs)
		}
		if v.Class == "survivor" {
			sig := sigOf(specs[i])
			if vf.Known(sig) {
				rec.Excluded(sig)
				return
			}
			if base := "C20:survivor:" + specs[i].Op + ":" + specs[i].Kind; vf.Known(base) {
				// the unconditional deviant is a listed survivor: its restriction to an argument class is the same finding
				rec.Excluded(base)
				return
			}
			rec.Failf(t, sig, "deviant %s changes what the suite observes in scenarios %v, yet the suite reports no failure", v.Spec, v.Differs)
		}
		if v.Class != "killed" && v.Class != "survivor" && expectedKilled()[specs[i].String()] {
			// ratchet: at the pinned commit the suite's scenarios observed this deviation and rejected it. Now no scenario
			// observes it any more: an edit to the suite dropped the scenario (or made several sub-tests run the same
			// table row), so the behaviour is no longer covered although the sub-test names still claim it.
			rec.NonTrivial()
			rec.Failf(t, "C20:unexercised:"+specs[i].String(), "deviant %s was rejected by the suite at the pinned commit; now none of the suite's scenarios observes the deviation (class %s): the suite no longer exercises this behaviour", v.Spec, v.Class)
		}
	})
}

//go:embed expected_killed.txt
var expectedKilledTxt string

var expectedKilledOnce sync.Once
var expectedKilledSet map[string]bool

// expectedKilled: the deviants the suite rejected at the pinned commit, in every one of several runs at different
// parallelism (tools: VERIF_ENUMERATE=1 VERIF_C20_DUMP_KILLED=<file> go test -run TestEnumerateSurvivors).
func expectedKilled() map[string]bool {
	expectedKilledOnce.Do(func() {
		expectedKilledSet = map[string]bool{}
		for _, l := range strings.Split(expectedKilledTxt, "\n") {
			if l = strings.TrimSpace(l); l != "" && !strings.HasPrefix(l, "#") {
				expectedKilledSet[l] = true
			}
		}
	})
	return expectedKilledSet
}

// TestCatalogue: one deviant per (operation, deviation kind), trigger "always" (quick tier).
func TestCatalogue(t *testing.T) { runSpecs(t, "catalogue", allSpecs([]string{"always"}), true) }

// TestGrammar: the whole finite grammar (operation x kind x trigger) (thorough tier).
func TestGrammar(t *testing.T) { runSpecs(t, "grammar", allSpecs(triggers), true) }

// TestEnumerateSurvivors (development aid, VERIF_ENUMERATE=1) prints the survivors of the whole grammar.
func TestEnumerateSurvivors(t *testing.T) {
	if os.Getenv("VERIF_ENUMERATE") == "" {
		t.Skip("development aid")
	}
	specs := allSpecs(triggers)
	byClass := map[string]int{}
	var killed []string
	surv := map[string][]string{}
	var mu sync.Mutex
	var wg sync.WaitGroup
	sem := make(chan struct{}, 16)
	reference()
	for _, sp := range specs {
		sp := sp
		wg.Add(1)
		sem <- struct{}{}
		go func() {
			defer wg.Done()
			defer func() { <-sem }()
			v := judgeSpec(sp)
			mu.Lock()
			byClass[v.Class]++
			if v.Class == "killed" {
				killed = append(killed, sp.String())
			}
			if v.Class == "survivor" {
				surv[sigOf(sp)] = append(surv[sigOf(sp)], fmt.Sprintf("%s differs in %v", sp.Trigger, v.Differs))
			}
			mu.Unlock()
		}()
	}
	wg.Wait()
	if out := os.Getenv("VERIF_C20_DUMP_KILLED"); out != "" {
		sort.Strings(killed)
		_ = os.WriteFile(out, []byte(strings.Join(killed, "\n")+"\n"), 0o644)
	}
	fmt.Println("CLASSES", byClass)
	var ks []string
	for k := range surv {
		ks = append(ks, k)
	}
	sort.Strings(ks)
	for _, k := range ks {
		fmt.Println("SURVIVOR", k, "::", strings.Join(surv[k], " | "))
	}
}

func TestReplayAll(t *testing.T) {
	for _, leg := range []string{"catalogue", "grammar"} {
		leg := leg
		t.Run(leg, func(t *testing.T) {
			vf.Replay(t, leg, func(steps []json.RawMessage) (string, string) {
				for _, raw := range steps {
					var v verdict
					if err := json.Unmarshal(raw, &v); err != nil || v.Spec == "" {
						continue
					}
					sp := parseSpec(v.Spec)
					nv := judgeSpec(sp)
					if nv.Class == "survivor" && expectedKilled()[sp.String()] {
						return "C20:regressed:" + sp.String(), fmt.Sprintf("deviant %s survives (differs in %v) although the suite rejected it at the pinned commit", nv.Spec, nv.Differs)
					}
					if nv.Class == "survivor" {
						return sigOf(sp), fmt.Sprintf("deviant %s survives (differs in %v)", nv.Spec, nv.Differs)
					}
					if nv.Class != "killed" && expectedKilled()[sp.String()] {
						return "C20:unexercised:" + sp.String(), fmt.Sprintf("deviant %s is no longer observed by any scenario (class %s)", nv.Spec, nv.Class)
					}
				}
				return "", ""
			})
		})
	}
}

func registerProbes() {
	vf.RegisterProbePrefix("C20:survivor:", func(sig string) (bool, string) {
		p := strings.Split(strings.TrimPrefix(sig, "C20:survivor:"), ":")
		if len(p) != 2 && len(p) != 3 {
			return false, "bad signature"
		}
		trs := triggers
		if len(p) == 3 {
			trs = []string{p[2]}
		}
		for _, tr := range trs {
			v := judgeSpec(spec{p[0], p[1], tr})
			if v.Class == "survivor" {
				return true, fmt.Sprintf("deviant %s passes the whole suite although scenarios %v observe it", v.Spec, v.Differs)
			}
		}
		return false, "no trigger of this deviant survives any more"
	})
}
