// C01: namespace operations on the in-memory / key-value FS behave like the os package.
package c01

import (
	"encoding/json"
	"fmt"
	"os"
	"path"
	"reflect"
	"sort"
	"strings"
	"testing"

	"github.com/hack-pad/hackpadfs"
	"github.com/hack-pad/hackpadfs/keyvalue"
	"github.com/hack-pad/hackpadfs/mem"
	hos "github.com/hack-pad/hackpadfs/os"
	"pgregory.net/rapid"

	"verifharness/internal/gen"
	"verifharness/internal/kvstore"
	"verifharness/internal/ops"
	"verifharness/internal/sit"
	"verifharness/internal/vf"
	"verifharness/internal/world"
)

func TestMain(m *testing.M) {
	world.Init()
	registerProbes()
	vf.Main(m, world.Cleanup)
}

type subject struct {
	name  string
	fs    hackpadfs.FS
	close func()
}

func newSubject(kind string) subject {
	switch kind {
	case "mem":
		fs, err := mem.NewFS()
		if err != nil {
			panic(err)
		}
		return subject{name: kind, fs: fs, close: func() {}}
	case "kvplain":
		fs, err := keyvalue.NewFS(kvstore.New())
		if err != nil {
			panic(err)
		}
		return subject{name: kind, fs: fs, close: func() {}}
	case "osfs":
		w := world.New()
		fs, err := hos.NewFS().Sub(strings.TrimPrefix(w.Root, "/"))
		if err != nil {
			panic(err)
		}
		return subject{name: kind, fs: fs, close: w.Close}
	}
	panic(kind)
}

// machine holds one differential run.
type machine struct {
	sub        subject
	ref        *world.World
	mtimes     map[string]int64
	steps      int
	failed     int // failed steps followed by another step
	muts       int
	lastFailed bool
	elems      []string
	clos       []string
}

func newMachine(kind string) *machine {
	return &machine{sub: newSubject(kind), ref: world.New(), mtimes: map[string]int64{}}
}

func (m *machine) close() { m.sub.close(); m.ref.Close() }

// closure of the elements seen in the history so far (grows with the history; the default names are always in)
func (m *machine) closure(op ops.Op) []string {
	n := len(m.elems)
	m.elems = gen.Elements(append(m.elems, op.P, op.P2)...)
	if len(m.elems) != n || m.clos == nil {
		m.clos = ops.Closure(m.elems, 3)
	}
	return m.clos
}

func mutating(k string) bool {
	switch k {
	case "stat", "readdir", "readfile", "lstat", "lstatorstat", "open":
		return false
	}
	return true
}

func related(q, p string) bool {
	if p == "" {
		return false
	}
	if p == "." || q == p {
		return true
	}
	return strings.HasPrefix(q, p+"/") || strings.HasPrefix(p, q+"/") || q == "."
}

// step applies op on both sides and compares. Returns (sig, msg) on divergence.
func (m *machine) step(op ops.Op) (string, string) {
	tree := gen.TreeOf(ops.SnapOS(m.ref.Root))
	situation := sit.Of(op, tree)
	if m.lastFailed {
		m.failed++
	}
	m.steps++
	rr := ops.ApplyOS(m.ref.Root, op)
	sr := ops.ApplyFS(m.sub.fs, op)
	m.lastFailed = !rr.OK()
	if rr.OK() && mutating(op.K) {
		m.muts++
	}
	base := fmt.Sprintf("C01/%s %s", m.sub.name, situation)
	if sr.Hung {
		return base + ":impl=hang", fmt.Sprintf("%v did not return", op)
	}
	if sr.Panic != "" {
		return base + ":impl=panic", fmt.Sprintf("%v: %s", op, sr.Panic)
	}
	if rr.OK() != sr.OK() {
		return fmt.Sprintf("%s:os=%s:impl=%s", base, okClass(rr), okClass(sr)), fmt.Sprintf("%v: os=%v impl=%v", op, rr, sr)
	}
	if rr.OK() {
		if !reflect.DeepEqual(rr.Data, sr.Data) {
			return base + ":data-differs", fmt.Sprintf("%v: os=%q impl=%q", op, rr.Data, sr.Data)
		}
		if !reflect.DeepEqual(rr.Ents, sr.Ents) {
			return base + ":entries-differ", fmt.Sprintf("%v: os=%v impl=%v", op, rr.Ents, sr.Ents)
		}
		if rr.Info != nil {
			a, b := *rr.Info, ops.Info{}
			if sr.Info != nil {
				b = *sr.Info
			}
			a.Mtime, b.Mtime = 0, 0
			if op.P == "." {
				// the root's own mode is outside the comparison; its name is whatever the directory is called
				a.Perm, b.Perm = 0, 0
				a.Name, b.Name = "", ""
			}
			if a != b {
				return base + ":info-differs", fmt.Sprintf("%v: os=%+v impl=%+v", op, a, b)
			}
		}
	}
	// tree equality after every step
	rs := ops.SnapOS(m.ref.Root)
	ss, prob := ops.SnapFS(m.sub.fs)
	if prob != "" {
		return base + ":snapshot-failed", fmt.Sprintf("after %v: %s", op, prob)
	}
	if d := ops.Diff(rs, ss, "os", "impl"); d != "" {
		return base + ":tree-differs", fmt.Sprintf("after %v (os=%v impl=%v): %s", op, rr, sr, d)
	}
	// existence and kind over the closure (finds entries a walk cannot reach)
	for _, p := range m.closure(op) {
		_, inRef := rs[p]
		if inRef {
			continue
		}
		var fi hackpadfs.FileInfo
		var err error
		if pan, hung := vf.Guard(func() { fi, err = hackpadfs.Stat(m.sub.fs, p) }); pan != "" || hung {
			return base + ":closure-stat-crash", fmt.Sprintf("after %v: Stat(%q) %s hung=%v", op, p, pan, hung)
		}
		if err == nil {
			return base + ":hidden-entry", fmt.Sprintf("after %v: Stat(%q) succeeds (dir=%v) but the path is not in the os tree and not reachable by listing", op, p, fi.IsDir())
		}
	}
	// modification times set through Chtimes
	// a rename carries the entry and everything below it along, times included (only the two parent directories change)
	moved := map[string]int64{}
	if op.K == "rename" && rr.OK() && op.P != op.P2 {
		for q, v := range m.mtimes {
			if q == op.P || strings.HasPrefix(q, op.P+"/") {
				moved[op.P2+q[len(op.P):]] = v
			}
		}
	}
	if mutating(op.K) && !(op.K == "chtimes" && op.Sec == 0) {
		for q := range m.mtimes {
			if related(q, op.P) || related(q, op.P2) {
				delete(m.mtimes, q)
			}
		}
	}
	for q, v := range moved {
		m.mtimes[q] = v // validated against the reference tree below like every other expectation
	}
	if op.K == "chtimes" && rr.OK() && op.Sec != 0 {
		m.mtimes[op.P] = op.Sec
	}
	for q, want := range m.mtimes {
		rfi, rerr := os.Stat(ops.OSPath(m.ref.Root, q))
		sfi, serr := hackpadfs.Stat(m.sub.fs, q)
		if rerr != nil || serr != nil {
			delete(m.mtimes, q)
			continue
		}
		if rfi.ModTime().Unix() != want {
			delete(m.mtimes, q) // the reference itself no longer holds it: not comparable
			continue
		}
		if sfi.ModTime().Unix() != want {
			return base + ":mtime-differs", fmt.Sprintf("after %v: mtime of %q os=%d impl=%d", op, q, want, sfi.ModTime().Unix())
		}
	}
	return "", ""
}

func okClass(r ops.Res) string {
	if r.OK() {
		return "ok"
	}
	return "err"
}

func run(t *testing.T, kind string) {
	vf.Check(t, kind, func(rt *rapid.T, rec *vf.Rec) {
		m := newMachine(kind)
		defer m.close()
		names := gen.Alphabet(rt)
		if len(names) == 3 && names[1] != "ab" {
			rec.Class("exotic-alphabet")
		}
		rt.Repeat(map[string]func(*rapid.T){
			"step": func(rt *rapid.T) {
				tree := gen.TreeOf(ops.SnapOS(m.ref.Root))
				op := gen.Op(rt, tree, names, 3, false)
				if len(m.mtimes) > 0 && rapid.IntRange(0, 9).Draw(rt, "rechtimes") == 0 {
					// a second Chtimes on a path whose time was set before, mostly with the zero time ("leave unchanged")
					var ps []string
					for q := range m.mtimes {
						ps = append(ps, q)
					}
					sort.Strings(ps)
					op = ops.Op{K: "chtimes", P: rapid.SampledFrom(ps).Draw(rt, "rechtimes.p")}
					if rapid.IntRange(0, 3).Draw(rt, "rechtimes.real") == 0 {
						op.Sec = int64(rapid.IntRange(1_000_000_000, 2_000_000_000).Draw(rt, "rechtimes.sec"))
					}
				}
				if len(m.mtimes) > 0 && rapid.IntRange(0, 9).Draw(rt, "carrytimes") == 0 {
					// an entry whose time was set (or the directory above it) moves: a rename carries times along
					var ps []string
					for q := range m.mtimes {
						ps = append(ps, q)
						if i := strings.LastIndex(q, "/"); i > 0 {
							ps = append(ps, q[:i])
						}
					}
					sort.Strings(ps)
					op = ops.Op{K: "rename", P: rapid.SampledFrom(ps).Draw(rt, "carrytimes.p"), P2: gen.Random(rt, names, 2, false, "carrytimes.p2")}
				}
				s := sit.Of(op, tree)
				if k := knownSig(kind, s); k != "" {
					rec.Excluded(k)
					rt.Skip("known finding " + k)
				}
				rec.Step(op)
				rec.Class("op:" + op.K)
				sig, msg := m.step(op)
				if sig == "HANG" || strings.HasSuffix(sig, ":impl=hang") {
					rec.HangExit(sig, "%s", msg)
				}
				if sig != "" {
					rec.Failf(rt, sig, "%s", msg)
				}
			},
		})
		if m.failed > 0 {
			rec.Class("failed-step-followed")
		}
		if m.steps >= 3 && m.muts >= 1 && m.failed >= 1 {
			rec.NonTrivial()
		}
	})
}

func TestMem(t *testing.T)     { run(t, "mem") }
func TestKVPlain(t *testing.T) { run(t, "kvplain") }
func TestOSFS(t *testing.T)    { run(t, "osfs") }

func replay(kind string) func(steps []json.RawMessage) (string, string) {
	return func(steps []json.RawMessage) (string, string) {
		m := newMachine(kind)
		defer m.close()
		for _, raw := range steps {
			var op ops.Op
			if err := json.Unmarshal(raw, &op); err != nil {
				return "bad-replay", err.Error()
			}
			if sig, msg := m.step(op); sig != "" {
				return sig, msg
			}
		}
		return "", ""
	}
}

func TestReplayMem(t *testing.T)     { vf.Replay(t, "mem", replay("mem")) }
func TestReplayKVPlain(t *testing.T) { vf.Replay(t, "kvplain", replay("kvplain")) }
func TestReplayOSFS(t *testing.T)    { vf.Replay(t, "osfs", replay("osfs")) }

var _ = path.Join

// knownSig maps a situation to the canonical signature of an active known finding ("" if none).
func knownSig(kind, situation string) string {
	if kind == "osfs" {
		return ""
	}
	for _, k := range knownMap {
		if k.match(situation) && vf.Known(k.sig) {
			return k.sig
		}
	}
	return ""
}

type knownDef struct {
	sig   string
	match func(situation string) bool
	probe func(fs hackpadfs.FS) (bool, string)
}

var knownMap = []knownDef{
	{
		sig: "C01:readfile-directory",
		match: func(s string) bool {
			return s == "readfile:root" || strings.HasPrefix(s, "readfile:dir")
		},
		probe: func(fs hackpadfs.FS) (bool, string) {
			b, err := hackpadfs.ReadFile(fs, ".")
			return err == nil, fmt.Sprintf("ReadFile(\".\") = %q, %v", b, err)
		},
	},
}

func registerProbes() {
	for _, k := range knownMap {
		k := k
		vf.RegisterProbe(k.sig, func() (bool, string) {
			s := newSubject("mem")
			defer s.close()
			return k.probe(s.fs)
		})
	}
}
