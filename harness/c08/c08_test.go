// C08: package helpers give the same result on every capability subset, and never report success for work not done.
package c08

import (
	"encoding/json"
	"errors"
	"fmt"
	"io"
	"reflect"
	"sort"
	"strings"
	"testing"
	"time"

	"github.com/hack-pad/hackpadfs"
	"pgregory.net/rapid"

	"verifharness/internal/gen"
	"verifharness/internal/masks"
	"verifharness/internal/ops"
	"verifharness/internal/subj"
	"verifharness/internal/vf"
	"verifharness/internal/world"
)

func TestMain(m *testing.M) {
	world.Init()
	registerProbes()
	vf.Main(m, world.Cleanup)
}

// Case is the replay format.
type Case struct {
	Inner string   `json:"inner"` // "mem" or "osfs"
	Setup []ops.Op `json:"setup"`
	Op    ops.Op   `json:"op"`
	// View: the helper is called on a generic Sub view at "." of the (full / masked / faulted) file system, not on it
	// directly: the view implements every interface and reaches its root through the helpers
	View bool `json:"view,omitempty"`
}

// via returns the file system the helper is called on.
func via(c Case, fs hackpadfs.FS) (hackpadfs.FS, error) {
	if !c.View {
		return fs, nil
	}
	return hackpadfs.Sub(fs, ".")
}

// applyVia runs the helper on via(c, fs); a view that cannot be made is the operation's failure.
func applyVia(c Case, fs hackpadfs.FS) ops.Res {
	var v hackpadfs.FS
	var err error
	if pan, hung := vf.Guard(func() { v, err = via(c, fs) }); pan != "" || hung {
		return ops.Res{Panic: pan, Hung: hung}
	}
	if err != nil {
		return ops.Res{Err: err, Stage: "view:"}
	}
	return apply(v, c.Op)
}

type env struct {
	fs    hackpadfs.FS
	close func()
}

func build(c Case) env {
	var e env
	switch c.Inner {
	case "mem":
		e.fs = subj.NewMem()
		e.close = func() {}
	case "osfs":
		w := world.New()
		e.fs = subj.OSFS(w.Root, 1)
		e.close = w.Close
	default:
		panic(c.Inner)
	}
	for _, op := range c.Setup {
		_ = ops.ApplyFS(e.fs, op)
	}
	return e
}

// apply runs the helper; for "sub" the returned FS is observed through a listing of its root.
func apply(fs hackpadfs.FS, op ops.Op) ops.Res {
	if op.K == "create" {
		return applyCreate(fs, op)
	}
	if op.K != "sub" {
		return ops.ApplyFS(fs, op)
	}
	var res ops.Res
	pan, hung := vf.Guard(func() {
		sub, err := hackpadfs.Sub(fs, op.P)
		if err != nil {
			res.Err = err
			return
		}
		des, err := hackpadfs.ReadDir(sub, ".")
		if err != nil {
			res.Err = fmt.Errorf("listing the sub FS: %w", err)
			return
		}
		for _, de := range des {
			res.Ents = append(res.Ents, ops.Ent{Name: de.Name(), IsDir: de.IsDir()})
		}
		if res.Ents == nil {
			res.Ents = []ops.Ent{}
		}
	})
	if hung {
		return ops.Res{Hung: true}
	}
	if pan != "" {
		return ops.Res{Panic: pan}
	}
	return res
}

// applyCreate: Create hands back a read-write handle (os.Create does): write through it, seek back and read what was written.
func applyCreate(fs hackpadfs.FS, op ops.Op) ops.Res {
	var res ops.Res
	pan, hung := vf.Guard(func() {
		f, err := hackpadfs.Create(fs, op.P)
		if err != nil {
			res.Err, res.Stage = err, "open:"
			return
		}
		defer func() {
			if cerr := f.Close(); cerr != nil && res.Err == nil {
				res.Err, res.Stage = cerr, "close:"
			}
		}()
		data := op.Data
		if data == nil {
			data = []byte("probe")
		}
		if _, err := hackpadfs.WriteFile(f, data); err != nil {
			res.Err, res.Stage = err, "write:"
			return
		}
		if _, err := hackpadfs.SeekFile(f, 0, io.SeekStart); err != nil {
			res.Err, res.Stage = err, "seek:"
			return
		}
		b, err := io.ReadAll(f)
		if err != nil {
			res.Err, res.Stage = err, "readback:"
			return
		}
		res.Data = b
	})
	if hung {
		return ops.Res{Hung: true}
	}
	if pan != "" {
		return ops.Res{Panic: pan}
	}
	return res
}

var mainSentinels = []error{hackpadfs.ErrNotExist, hackpadfs.ErrExist, hackpadfs.ErrIsDir, hackpadfs.ErrNotDir, hackpadfs.ErrNotEmpty, hackpadfs.ErrInvalid}

func sameClass(a, b error) bool {
	for _, s := range mainSentinels {
		if errors.Is(a, s) != errors.Is(b, s) {
			return false
		}
	}
	return true
}

func sameResult(op ops.Op, a, b ops.Res) string {
	if a.OK() != b.OK() {
		return fmt.Sprintf("success differs: %v vs %v", a, b)
	}
	if !a.OK() {
		if !sameClass(a.Err, b.Err) {
			return fmt.Sprintf("error class differs: %v [%s] vs %v [%s]", a.Err, ops.ErrClass(a.Err), b.Err, ops.ErrClass(b.Err))
		}
		return ""
	}
	if !reflect.DeepEqual(a.Data, b.Data) || !reflect.DeepEqual(a.Ents, b.Ents) {
		return fmt.Sprintf("data differs: %v vs %v", a, b)
	}
	if (a.Info == nil) != (b.Info == nil) {
		return fmt.Sprintf("info differs: %v vs %v", a, b)
	}
	if a.Info != nil {
		x, y := *a.Info, *b.Info
		x.Mtime, y.Mtime = 0, 0
		if op.P == "." {
			x.Name, y.Name = "", ""
		}
		if x != y {
			return fmt.Sprintf("info differs: %+v vs %+v", x, y)
		}
	}
	return ""
}

func subsets(ifs []string) [][]string {
	var out [][]string
	for bits := 0; bits < 1<<len(ifs); bits++ {
		var s []string
		for i, n := range ifs {
			if bits&(1<<i) != 0 {
				s = append(s, n)
			}
		}
		out = append(out, s)
	}
	return out
}

type outcome struct {
	subsets     int
	faults      int
	fallback2   bool // a proper subset whose fallback made >= 2 primitive calls
	notImpl     int
	faultsFired int
	excluded    int
}

func hasLink(c Case) bool {
	for _, op := range c.Setup {
		if op.K == "symlink" {
			return true
		}
	}
	return false
}

func has(set []string, x string) bool {
	for _, s := range set {
		if s == x {
			return true
		}
	}
	return false
}

// check enumerates every capability subset (and every fault index of each) for the case.
func check(c Case) (string, string, outcome) {
	var out outcome
	full := build(c)
	fullRes := applyVia(c, full.fs)
	fullSnap, prob := ops.SnapFS(full.fs)
	full.close()
	base := fmt.Sprintf("C08/%s %s", c.Inner, c.Op.K)
	if prob != "" || fullRes.Hung || fullRes.Panic != "" {
		return base + ":full-crash", fmt.Sprintf("%v on the full FS: %v %s", c.Op, fullRes, prob), out
	}
	pre := build(c)
	beforeSnap, _ := ops.SnapFS(pre.fs)
	ifs := masks.Supported(pre.fs, masks.HelperInterfaces[c.Op.K])
	pre.close()
	for _, set := range subsets(ifs) {
		key := "{" + strings.Join(set, ",") + "}"
		if c.Op.K == "removeall" && beforeSnap[c.Op.P].Kind == 'd' && !has(set, "RemoveFS") && !has(set, "RemoveAllFS") && !has(set, "MountFS") && vf.Known("C08:removeall-dir-without-remove") {
			out.excluded++
			continue
		}
		if hasLink(c) && has(ifs, "LstatFS") && !has(set, "LstatFS") {
			// a file system that holds symbolic links exposes Lstat (only os.FS does, and it does): without it no
			// helper can tell a link from its target, so the full FS is not the oracle for such a subset
			continue
		}
		e := build(c)
		h := &masks.Hooks{}
		m := masks.New(e.fs, set, h)
		if m == nil {
			e.close()
			return base + ":no-mask-type", "no generated mask type for " + key, out
		}
		res := applyVia(c, m)
		snap, prob := ops.SnapFS(e.fs)
		e.close()
		out.subsets++
		if prob != "" || res.Hung || res.Panic != "" {
			return base + ":crash:" + key, fmt.Sprintf("%v on subset %s: %v %s", c.Op, key, res, prob), out
		}
		if !res.OK() && errors.Is(res.Err, hackpadfs.ErrNotImplemented) && !(!fullRes.OK() && errors.Is(fullRes.Err, hackpadfs.ErrNotImplemented)) {
			out.notImpl++
			if d := ops.Diff(beforeSnap, snap, "before", "after"); d != "" {
				return base + ":notimpl-but-changed:" + key, fmt.Sprintf("%v on subset %s failed with ErrNotImplemented (%v) but changed state: %s (calls %v)", c.Op, key, res.Err, d, h.Log), out
			}
		} else {
			if d := sameResult(c.Op, fullRes, res); d != "" {
				return base + ":result-differs:" + key, fmt.Sprintf("%v: full FS vs subset %s: %s (calls %v)", c.Op, key, d, h.Log), out
			}
			if d := ops.Diff(fullSnap, snap, "full", "subset"); d != "" {
				return base + ":state-differs:" + key, fmt.Sprintf("%v: full FS vs subset %s (%v): %s (calls %v)", c.Op, key, res, d, h.Log), out
			}
		}
		if len(set) < len(ifs) && h.Calls >= 2 {
			out.fallback2 = true
		}
		// second axis: fail each primitive call of this fault-free run in turn
		n := h.Calls
		for i := 1; i <= n; i++ {
			e := build(c)
			hf := &masks.Hooks{FailAt: i}
			mf := masks.New(e.fs, set, hf)
			fres := applyVia(c, mf)
			fsnap, fprob := ops.SnapFS(e.fs)
			e.close()
			out.faults++
			if fprob != "" || fres.Hung || fres.Panic != "" {
				return base + ":fault-crash:" + key, fmt.Sprintf("%v on subset %s with primitive call %d (%s) failing: %v %s", c.Op, key, i, hf.Fired, fres, fprob), out
			}
			if hf.Fired == "" {
				continue
			}
			out.faultsFired++
			if fres.OK() {
				// success is only acceptable if the work was verifiably done (e.g. io/fs.ReadFile ignoring a failed size hint)
				if d := sameResult(c.Op, fullRes, fres); d != "" || !fullRes.OK() {
					return base + ":fault-swallowed:" + strings.ReplaceAll(hf.Fired, " ", ""), fmt.Sprintf("%v on subset %s: primitive call %d (%s) failed but the helper returned success: %v (full FS: %v) (calls %v)", c.Op, key, i, hf.Fired, fres, fullRes, hf.Log), out
				}
				if d := ops.Diff(fullSnap, fsnap, "full", "faulted"); d != "" {
					return base + ":fault-swallowed:" + strings.ReplaceAll(hf.Fired, " ", ""), fmt.Sprintf("%v on subset %s: primitive call %d (%s) failed, the helper returned success, but the work was not done: %s (calls %v)", c.Op, key, i, hf.Fired, d, hf.Log), out
				}
			}
		}
		// third axis (RemoveAll only, the helper that tolerates ErrNotExist by design): a primitive call on an entry BELOW
		// the target answers "does not exist" -- what it reports when something else removed the entry in between --
		// although the entry is still there. Tolerating that for the one entry is fine; reporting success for the whole
		// operation while the target still exists is not.
		if c.Op.K == "removeall" {
			for i := 1; i <= n; i++ {
				e := build(c)
				hf := &masks.Hooks{FailAt: i, Vanished: true}
				mf := masks.New(e.fs, set, hf)
				fres := applyVia(c, mf)
				_, serr := hackpadfs.LstatOrStat(e.fs, c.Op.P)
				e.close()
				out.faults++
				if fres.Hung || fres.Panic != "" {
					return base + ":vanish-crash:" + key, fmt.Sprintf("%v on subset %s with primitive call %d (%s %q) answering ErrNotExist: %v", c.Op, key, i, hf.Fired, hf.FiredName, fres), out
				}
				if hf.Fired == "" || hf.FiredName == "" || hf.FiredName == c.Op.P {
					continue
				}
				out.faultsFired++
				if fres.OK() && serr == nil && c.Op.P != "." {
					return base + ":vanish-swallowed:" + strings.ReplaceAll(hf.Fired, " ", ""), fmt.Sprintf("%v on subset %s: primitive call %d (%s %q) answered ErrNotExist for an entry that is still there; RemoveAll returned nil although %q still exists (calls %v)", c.Op, key, i, hf.Fired, hf.FiredName, c.Op.P, hf.Log), out
				}
			}
		}
	}
	return "", "", out
}

// ------------------------------------------------------------------ file helpers

// bareFile exposes only fs.File of a real file.
type bareFile struct{ f hackpadfs.File }

func (b bareFile) Stat() (hackpadfs.FileInfo, error) { return b.f.Stat() }
func (b bareFile) Read(p []byte) (int, error)        { return b.f.Read(p) }
func (b bareFile) Close() error                      { return b.f.Close() }

type FileCase struct {
	Helper string `json:"helper"`
	Dir    bool   `json:"dir"`
	// Variant selects boundary arguments (same-size / zero / larger Truncate, empty buffers, the three Seek origins) and
	// RO opens the regular file read-only: a fallback must not answer from the arguments alone
	Variant int  `json:"variant,omitempty"`
	RO      bool `json:"ro,omitempty"`
}

var fileHelpers = []string{"chmod", "chown", "chtimes", "readat", "write", "writeat", "readdir", "seek", "sync", "truncate"}

func callFileHelper(helper string, f hackpadfs.File) error { return callFileHelperV(helper, f, 0) }

func callFileHelperV(helper string, f hackpadfs.File, variant int) error {
	if variant > 0 {
		switch helper {
		case "truncate":
			return hackpadfs.TruncateFile(f, []int64{1, 5, 0, 9}[variant%4]) // 5 = the file's current size
		case "seek":
			_, err := hackpadfs.SeekFile(f, 0, []int{io.SeekStart, io.SeekCurrent, io.SeekEnd, io.SeekCurrent}[variant%4])
			return err
		case "readat":
			_, err := hackpadfs.ReadAtFile(f, make([]byte, []int{2, 0, 5, 0}[variant%4]), int64([]int{0, 0, 5, 5}[variant%4]))
			if err == io.EOF {
				err = nil
			}
			return err
		case "write":
			_, err := hackpadfs.WriteFile(f, [][]byte{[]byte("x"), {}, []byte("hello"), {}}[variant%4])
			return err
		case "writeat":
			_, err := hackpadfs.WriteAtFile(f, [][]byte{[]byte("x"), {}, []byte("x"), {}}[variant%4], int64([]int{0, 0, 5, 5}[variant%4]))
			return err
		case "readdir":
			_, err := hackpadfs.ReadDirFile(f, []int{-1, 0, 1, 100}[variant%4])
			return err
		case "chmod":
			return hackpadfs.ChmodFile(f, []hackpadfs.FileMode{0o600, 0o644, 0, 0o777}[variant%4]) // 0644 = the current mode
		}
	}
	switch helper {
	case "chmod":
		return hackpadfs.ChmodFile(f, 0o600)
	case "chown":
		return hackpadfs.ChownFile(f, 0, 0)
	case "chtimes":
		return hackpadfs.ChtimesFile(f, time.Unix(1e9, 0), time.Unix(1e9, 0))
	case "readat":
		_, err := hackpadfs.ReadAtFile(f, make([]byte, 2), 0)
		if err == io.EOF {
			err = nil
		}
		return err
	case "write":
		_, err := hackpadfs.WriteFile(f, []byte("x"))
		return err
	case "writeat":
		_, err := hackpadfs.WriteAtFile(f, []byte("x"), 0)
		return err
	case "readdir":
		_, err := hackpadfs.ReadDirFile(f, -1)
		return err
	case "seek":
		_, err := hackpadfs.SeekFile(f, 0, io.SeekStart)
		return err
	case "sync":
		return hackpadfs.SyncFile(f)
	case "truncate":
		return hackpadfs.TruncateFile(f, 1)
	}
	panic(helper)
}

func checkFile(inner string, fc FileCase) (string, string) {
	e := build(Case{Inner: inner, Setup: []ops.Op{{K: "mkdir", P: "d", Perm: 0o755}, {K: "writefile", P: "f", Data: []byte("hello"), Perm: 0o644}}})
	defer e.close()
	name := "f"
	if fc.Dir {
		name = "d"
	}
	open := func() hackpadfs.File {
		var f hackpadfs.File
		var err error
		if fc.Dir {
			f, err = e.fs.Open(name)
		} else {
			flag := hackpadfs.FlagReadWrite
			if fc.RO {
				flag = hackpadfs.FlagReadOnly
			}
			f, err = hackpadfs.OpenFile(e.fs, name, flag, 0)
		}
		if err != nil {
			panic(err)
		}
		return f
	}
	base := fmt.Sprintf("C08/%s file-%s", inner, fc.Helper)
	before, _ := ops.SnapFS(e.fs)
	bare := open()
	var berr error
	pan, hung := vf.Guard(func() { berr = callFileHelperV(fc.Helper, bareFile{bare}, fc.Variant) })
	_ = bare.Close()
	if pan != "" || hung {
		return base + ":crash", fmt.Sprintf("%s on a bare file: %s hung=%v", fc.Helper, pan, hung)
	}
	var pe *hackpadfs.PathError
	if berr == nil || !errors.Is(berr, hackpadfs.ErrNotImplemented) || !errors.As(berr, &pe) {
		return base + ":bare-not-notimplemented", fmt.Sprintf("%sFile on a file exposing only fs.File returned %v (%T), want an ErrNotImplemented *PathError", fc.Helper, berr, berr)
	}
	after, _ := ops.SnapFS(e.fs)
	if d := ops.Diff(before, after, "before", "after"); d != "" {
		return base + ":bare-changed-state", d
	}
	return "", ""
}

// ------------------------------------------------------------------ generation / legs

var helperKinds = []string{"sub", "openfile", "create", "mkdir", "mkdirall", "mkdirall", "remove", "removeall", "removeall", "rename", "stat", "lstat",
	"lstatorstat", "chmod", "chown", "chownids", "chtimes", "readdir", "readfile", "writefile", "writefile", "symlink"}

func genCase(t *rapid.T, inner string) Case {
	c := Case{Inner: inner}
	scratch := subj.NewMem()
	names := gen.Alphabet(t)
	n := rapid.IntRange(0, 6).Draw(t, "nsetup")
	for i := 0; i < n; i++ {
		snap, _ := ops.SnapFS(scratch)
		tr := gen.TreeOf(snap)
		k := rapid.SampledFrom([]string{"mkdir", "mkdirall", "writefile", "writefile"}).Draw(t, "skind")
		op := ops.Op{K: k, P: gen.Path(t, tr, names, 3, false, "sp"), Perm: 0o755}
		if k == "writefile" {
			op.Perm = 0o644
			op.Data = gen.Payload(t, 8, "sdata")
		}
		_ = ops.ApplyFS(scratch, op)
		c.Setup = append(c.Setup, op)
	}
	snap, _ := ops.SnapFS(scratch)
	tr := gen.TreeOf(snap)
	linked := false
	if inner == "osfs" && rapid.IntRange(0, 2).Draw(t, "withlink") == 0 {
		// one symbolic link in the start state (only os.FS can hold one): at the top level, to an existing directory or
		// file below the root, so that walking the tree stays finite. Helpers that look a path element up must follow it
		// exactly where the native implementation does.
		var targets []string
		for _, q := range append(append([]string{}, tr.Dirs...), tr.Files...) {
			if q != "." {
				targets = append(targets, q)
			}
		}
		if len(targets) > 0 {
			linked = true
			c.Setup = append(c.Setup, ops.Op{K: "symlink", P: rapid.SampledFrom(targets).Draw(t, "linktarget"), P2: "l"})
			// the link resolves like its target: make the generators see it as such
			tgt := c.Setup[len(c.Setup)-1].P
			isDir := false
			for _, d := range tr.Dirs {
				isDir = isDir || d == tgt
			}
			if isDir {
				tr.Dirs = append(tr.Dirs, "l")
			} else {
				tr.Files = append(tr.Files, "l")
			}
		}
	}
	k := rapid.SampledFrom(helperKinds).Draw(t, "helper")
	op := ops.Op{K: k, P: gen.Path(t, tr, names, 3, true, "p"), Perm: gen.Perm(t, "perm")}
	if linked && rapid.Bool().Draw(t, "vialink") {
		// at or through the link
		op.P = "l"
		if rapid.Bool().Draw(t, "below") {
			op.P = "l/" + rapid.SampledFrom(names).Draw(t, "belowname")
			if rapid.IntRange(0, 2).Draw(t, "deeper") == 0 {
				op.P += "/" + rapid.SampledFrom(names).Draw(t, "belowname2")
			}
		}
	}
	switch k {
	case "openfile":
		op.Flag = gen.Flags(t, "flag")
		if op.Flag&3 != 0 && rapid.Bool().Draw(t, "w") {
			op.Data = gen.Payload(t, 6, "data")
		}
	case "create":
		if rapid.Bool().Draw(t, "w") {
			op.Data = gen.Payload(t, 6, "data")
		}
	case "writefile":
		op.Data = gen.Payload(t, 12, "data")
	case "rename", "symlink":
		op.P2 = gen.Second(t, tr, op.P, names, 3, true, "p2")
	case "chtimes":
		op.Sec = 1_400_000_000
	case "sub":
		if len(tr.Dirs) > 0 && rapid.IntRange(0, 3).Draw(t, "subdir") != 0 {
			op.P = rapid.SampledFrom(tr.Dirs).Draw(t, "dir")
		}
	}
	c.Op = op
	if c.Op.K == "chmod" && rapid.IntRange(0, 2).Draw(t, "special") == 0 {
		c.Op.Perm |= rapid.SampledFrom(ops.SpecialBits).Draw(t, "specialbit") // set-uid / set-gid / sticky travel with a mode too
	}
	if inner == "mem" && rapid.IntRange(0, 3).Draw(t, "view") == 0 {
		c.View = true
	}
	return c
}

func run(t *testing.T, inner string) {
	vf.Check(t, inner, func(rt *rapid.T, rec *vf.Rec) {
		c := genCase(rt, inner)
		if k := knownSig(c); k != "" {
			rec.Excluded(k)
			rt.Skip("known finding " + k)
		}
		rec.Step(c)
		rec.Class("helper:" + c.Op.K)
		sig, msg, out := check(c)
		rec.Count("subsets", out.subsets)
		rec.Count("fault-runs", out.faults)
		rec.Count("faults-fired", out.faultsFired)
		rec.Count("notimplemented-outcomes", out.notImpl)
		for i := 0; i < out.excluded; i++ {
			rec.Excluded("C08:removeall-dir-without-remove")
		}
		if out.fallback2 {
			rec.NonTrivial()
		}
		if sig != "" {
			rec.Failf(rt, sig, "%s", msg)
		}
	})
}

func TestMem(t *testing.T)  { run(t, "mem") }
func TestOSFS(t *testing.T) { run(t, "osfs") }

func TestFileHelpers(t *testing.T) {
	var cases []struct {
		inner string
		fc    FileCase
	}
	for _, inner := range []string{"mem", "osfs"} {
		for _, h := range fileHelpers {
			for _, dir := range []bool{false, true} {
				for variant := 0; variant < 4; variant++ {
					for _, ro := range []bool{false, true} {
						if dir && ro {
							continue
						}
						cases = append(cases, struct {
							inner string
							fc    FileCase
						}{inner, FileCase{Helper: h, Dir: dir, Variant: variant, RO: ro}})
					}
				}
			}
		}
	}
	vf.Each(t, "filehelpers", len(cases), true, func(i int, t *testing.T, rec *vf.Rec) {
		c := cases[i]
		rec.Step(map[string]any{"inner": c.inner, "case": c.fc})
		rec.NonTrivial()
		if sig, msg := checkFile(c.inner, c.fc); sig != "" {
			rec.Failf(t, sig, "%s", msg)
		}
	})
}

func TestReplayAll(t *testing.T) {
	for _, inner := range []string{"mem", "osfs"} {
		inner := inner
		t.Run(inner, func(t *testing.T) {
			vf.Replay(t, inner, func(steps []json.RawMessage) (string, string) {
				for _, raw := range steps {
					var c Case
					if err := json.Unmarshal(raw, &c); err != nil {
						return "bad-replay", err.Error()
					}
					if sig, msg, _ := check(c); sig != "" {
						return sig, msg
					}
				}
				return "", ""
			})
		})
	}
	t.Run("filehelpers", func(t *testing.T) {
		vf.Replay(t, "filehelpers", func(steps []json.RawMessage) (string, string) {
			for _, raw := range steps {
				var s struct {
					Inner string   `json:"inner"`
					Case  FileCase `json:"case"`
				}
				if err := json.Unmarshal(raw, &s); err != nil {
					return "bad-replay", err.Error()
				}
				if sig, msg := checkFile(s.Inner, s.Case); sig != "" {
					return sig, msg
				}
			}
			return "", ""
		})
	})
}

func knownSig(c Case) string { return "" }

func registerProbes() {
	vf.RegisterProbe("C08:removeall-dir-without-remove", func() (bool, string) {
		inner := subj.NewMem()
		_ = inner.Mkdir("d", 0o755)
		m := masks.New(inner, nil, &masks.Hooks{})
		err := hackpadfs.RemoveAll(m, "d")
		_, serr := hackpadfs.Stat(inner, "d")
		return err == nil && serr == nil, fmt.Sprintf("RemoveAll(\"d\") on an FS without Remove = %v; the directory still exists: %v", err, serr == nil)
	})
}

var _ = sort.Strings
