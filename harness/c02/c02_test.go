// C02: file handles behave like os.File (bytes, offsets, EOF, access modes, coherence).
package c02

import (
	"bytes"
	"encoding/json"
	"errors"
	"fmt"
	"io"
	"os"
	"testing"

	"github.com/hack-pad/hackpadfs"
	"github.com/hack-pad/hackpadfs/keyvalue"
	"github.com/hack-pad/hackpadfs/mem"
	"pgregory.net/rapid"

	"verifharness/internal/kvstore"
	"verifharness/internal/ops"
	"verifharness/internal/vf"
	"verifharness/internal/world"
)

func TestMain(m *testing.M) {
	world.Init()
	registerProbes()
	vf.Main(m, world.Cleanup)
}

// Act is one handle-level action (the replay format).
type Act struct {
	K      string `json:"k"`
	Slot   int    `json:"slot"`
	Target string `json:"target,omitempty"` // "f" or "d" (open)
	Flag   int    `json:"flag,omitempty"`
	N      int    `json:"n,omitempty"`
	Off    int64  `json:"off,omitempty"`
	Whence int    `json:"whence,omitempty"`
	Data   []byte `json:"data,omitempty"`
}

func (a Act) String() string {
	switch a.K {
	case "open":
		return fmt.Sprintf("h%d=open(%s,%s)", a.Slot, a.Target, ops.FlagString(a.Flag))
	case "read":
		return fmt.Sprintf("h%d.read(%d)", a.Slot, a.N)
	case "readat":
		return fmt.Sprintf("h%d.readat(%d,off=%d)", a.Slot, a.N, a.Off)
	case "write":
		return fmt.Sprintf("h%d.write(%s)", a.Slot, short(a.Data))
	case "writeat":
		return fmt.Sprintf("h%d.writeat(%s,off=%d)", a.Slot, short(a.Data), a.Off)
	case "seek":
		return fmt.Sprintf("h%d.seek(%d,%d)", a.Slot, a.Off, a.Whence)
	case "truncate":
		return fmt.Sprintf("h%d.truncate(%d)", a.Slot, a.Off)
	}
	return fmt.Sprintf("h%d.%s()", a.Slot, a.K)
}

func short(b []byte) string {
	if len(b) > 20 {
		return fmt.Sprintf("%q...(%d bytes)", b[:8], len(b))
	}
	return fmt.Sprintf("%q", b)
}

type handle struct {
	sub   hackpadfs.File
	ref   *os.File
	flag  int
	isDir bool
	used  bool // a data-touching call (read, write, stat, truncate) was made through this handle
}

type machine struct {
	kind  string
	fs    hackpadfs.FS
	w     *world.World
	slots [3]*handle
	// bookkeeping for the non-trivial rule
	sizeChangedBy map[int]bool // slots that changed the size since ...
	nontrivial    bool
	lastFailed    bool
	multi         bool
}

const initial = "0123456789abcdefghij"

func newMachine(kind string) *machine {
	m := &machine{kind: kind, w: world.New(), sizeChangedBy: map[int]bool{}}
	switch kind {
	case "mem":
		fs, err := mem.NewFS()
		must(err)
		m.fs = fs
	case "kvplain":
		fs, err := keyvalue.NewFS(kvstore.New())
		must(err)
		m.fs = fs
	}
	must(hackpadfs.WriteFullFile(m.fs, "f", []byte(initial), 0o644))
	must(hackpadfs.Mkdir(m.fs, "d", 0o755))
	must(os.WriteFile(m.w.Root+"/f", []byte(initial), 0o644))
	must(os.Mkdir(m.w.Root+"/d", 0o755))
	return m
}

func must(err error) {
	if err != nil {
		panic(err)
	}
}

func (m *machine) close() {
	for _, h := range m.slots {
		if h != nil {
			_ = h.ref.Close()
			_ = h.sub.Close()
		}
	}
	m.w.Close()
}

func accName(flag int) string {
	s := []string{"R", "W", "RW", "X"}[flag&3]
	if flag&os.O_APPEND != 0 {
		s += "A"
	}
	return s
}

func (m *machine) refSize() int64 {
	fi, err := os.Stat(m.w.Root + "/f")
	if err != nil {
		return 0 // the case started with the file removed and nothing has created it yet
	}
	return fi.Size()
}

func (m *machine) refExists() bool {
	_, err := os.Stat(m.w.Root + "/f")
	return err == nil
}

func rel(off, size int64) string {
	switch {
	case off < 0:
		return "neg"
	case off < size:
		return "lt"
	case off == size:
		return "eq"
	}
	return "gt"
}

// step performs a on both sides and compares; returns (sig, msg) on divergence.
func (m *machine) step(a Act) (sig, msg string) {
	base := fmt.Sprintf("C02/%s %s", m.kind, a.K)
	fail := func(what, format string, args ...any) (string, string) {
		return base + ":" + what, fmt.Sprintf("%v: ", a) + fmt.Sprintf(format, args...)
	}
	if m.lastFailed {
		m.nontrivial = true // a call after a failed call
	}
	m.lastFailed = false
	h := m.slots[a.Slot]
	if a.K != "open" && a.K != "unlink" && h == nil {
		return "", ""
	}
	if h != nil {
		base += "[" + accName(h.flag)
		if h.isDir {
			base += ",dir"
		}
		base += "]"
	}
	if h != nil && (a.K == "read" || a.K == "readat" || a.K == "write" || a.K == "writeat" || a.K == "truncate" || a.K == "stat") {
		h.used = true
	}
	var pan string
	var hung bool
	switch a.K {
	case "unlink":
		// only generated as the first act of a case: the file does not exist until an open with O_CREATE makes it
		must(os.Remove(m.w.Root + "/f"))
		if err := hackpadfs.Remove(m.fs, "f"); err != nil {
			return fail("unlink", "%v", err)
		}
		return "", ""
	case "open":
		if h != nil {
			return "", ""
		}
		base += "[" + accName(a.Flag) + "," + a.Target + "]"
		rf, rerr := os.OpenFile(m.w.Root+"/"+a.Target, a.Flag, 0o644)
		var sf hackpadfs.File
		var serr error
		pan, hung = vf.Guard(func() { sf, serr = hackpadfs.OpenFile(m.fs, a.Target, a.Flag, 0o644) })
		if pan != "" || hung {
			return fail("crash", "%s hung=%v", pan, hung)
		}
		if (rerr == nil) != (serr == nil) {
			if rf != nil {
				_ = rf.Close()
			}
			if sf != nil && serr == nil {
				_ = sf.Close()
			}
			m.lastFailed = true
			return fail("success-differs", "os=%v impl=%v", rerr, serr)
		}
		if rerr != nil {
			m.lastFailed = true
			break
		}
		m.slots[a.Slot] = &handle{sub: sf, ref: rf, flag: a.Flag, isDir: a.Target == "d"}
		n := 0
		for _, s := range m.slots {
			if s != nil && !s.isDir {
				n++
			}
		}
		if n >= 2 {
			m.multi = true
		}
		if a.Flag&os.O_TRUNC != 0 {
			m.noteSizeChange(a.Slot)
		}
	case "close":
		rerr := h.ref.Close()
		var serr error
		pan, hung = vf.Guard(func() { serr = h.sub.Close() })
		m.slots[a.Slot] = nil
		delete(m.sizeChangedBy, a.Slot)
		if pan != "" || hung {
			return fail("crash", "%s hung=%v", pan, hung)
		}
		if (rerr == nil) != (serr == nil) {
			return fail("success-differs", "os=%v impl=%v", rerr, serr)
		}
	case "read":
		pos, _ := h.ref.Seek(0, io.SeekCurrent)
		size := m.refSize()
		rb := make([]byte, a.N)
		rn, rerr := h.ref.Read(rb)
		sb := make([]byte, a.N)
		var sn int
		var serr error
		pan, hung = vf.Guard(func() { sn, serr = h.sub.Read(sb) })
		if pan != "" || hung {
			return fail("crash", "%s hung=%v", pan, hung)
		}
		base += ":" + rel(pos, size)
		if !h.isDir {
			for other := range m.sizeChangedBy {
				if other != a.Slot {
					m.nontrivial = true // read on one handle after a size-changing call on another
				}
			}
		}
		switch {
		case rerr != nil && rerr != io.EOF:
			m.lastFailed = true
			if serr == nil || serr == io.EOF || sn != 0 {
				return base + ":must-fail", fmt.Sprintf("%v: os=(%d,%v) impl=(%d,%v)", a, rn, rerr, sn, serr)
			}
		case rerr == io.EOF:
			if sn != 0 || serr != io.EOF {
				return base + ":eof", fmt.Sprintf("%v: os=(0,EOF) impl=(%d,%v)", a, sn, serr)
			}
		default:
			if sn != rn || !bytes.Equal(rb[:rn], sb[:min(sn, len(sb))]) {
				return base + ":bytes", fmt.Sprintf("%v at %d/%d: os=(%d,%q) impl=(%d,%q,%v)", a, pos, size, rn, rb[:rn], sn, sb[:min(max(sn, 0), len(sb))], serr)
			}
			atEnd := pos+int64(rn) >= size
			if serr != nil && !(serr == io.EOF && atEnd) {
				return base + ":err", fmt.Sprintf("%v at %d/%d: os=(%d,nil) impl=(%d,%v)", a, pos, size, rn, sn, serr)
			}
		}
	case "readat":
		size := m.refSize()
		rb := make([]byte, a.N)
		rn, rerr := h.ref.ReadAt(rb, a.Off)
		sb := make([]byte, a.N)
		var sn int
		var serr error
		pan, hung = vf.Guard(func() { sn, serr = hackpadfs.ReadAtFile(h.sub, sb, a.Off) })
		if pan != "" || hung {
			return fail("crash", "%s hung=%v", pan, hung)
		}
		base += ":" + rel(a.Off, size)
		switch {
		case rerr != nil && rerr != io.EOF:
			m.lastFailed = true
			if serr == nil || serr == io.EOF || sn != 0 {
				return base + ":must-fail", fmt.Sprintf("%v: os=(%d,%v) impl=(%d,%v)", a, rn, rerr, sn, serr)
			}
		default:
			if sn != rn || !bytes.Equal(rb[:rn], sb[:min(max(sn, 0), len(sb))]) {
				return base + ":bytes", fmt.Sprintf("%v size=%d: os=(%d,%q,%v) impl=(%d,%q,%v)", a, size, rn, rb[:rn], rerr, sn, sb[:min(max(sn, 0), len(sb))], serr)
			}
			switch {
			case rn < a.N && serr == nil:
				return base + ":short-without-error", fmt.Sprintf("%v size=%d: impl=(%d,nil)", a, size, sn)
			case rn == a.N && serr != nil && !(serr == io.EOF && a.Off+int64(rn) >= size):
				return base + ":err", fmt.Sprintf("%v size=%d: os=(%d,%v) impl=(%d,%v)", a, size, rn, rerr, sn, serr)
			case rn < a.N && serr != io.EOF:
				return base + ":err", fmt.Sprintf("%v size=%d: os=(%d,%v) impl=(%d,%v): end of file must be reported as io.EOF", a, size, rn, rerr, sn, serr)
			}
		}
	case "write":
		before := m.refSize()
		rn, rerr := h.ref.Write(a.Data)
		var sn int
		var serr error
		pan, hung = vf.Guard(func() { sn, serr = hackpadfs.WriteFile(h.sub, a.Data) })
		if pan != "" || hung {
			return fail("crash", "%s hung=%v", pan, hung)
		}
		if (rerr == nil) != (serr == nil) || rn != sn {
			m.lastFailed = rerr != nil
			return base + ":result", fmt.Sprintf("%v: os=(%d,%v) impl=(%d,%v)", a, rn, rerr, sn, serr)
		}
		m.lastFailed = rerr != nil
		if m.refSize() != before {
			m.noteSizeChange(a.Slot)
		}
	case "writeat":
		before := m.refSize()
		rn, rerr := h.ref.WriteAt(a.Data, a.Off)
		var sn int
		var serr error
		pan, hung = vf.Guard(func() { sn, serr = hackpadfs.WriteAtFile(h.sub, a.Data, a.Off) })
		if pan != "" || hung {
			return fail("crash", "%s hung=%v", pan, hung)
		}
		base += ":" + rel(a.Off, before)
		if len(a.Data) == 0 {
			base += ",empty"
		}
		if (rerr == nil) != (serr == nil) || rn != sn {
			m.lastFailed = rerr != nil
			return base + ":result", fmt.Sprintf("%v size=%d: os=(%d,%v) impl=(%d,%v)", a, before, rn, rerr, sn, serr)
		}
		m.lastFailed = rerr != nil
		if m.refSize() != before {
			m.noteSizeChange(a.Slot)
		}
	case "seek":
		rp, rerr := h.ref.Seek(a.Off, a.Whence)
		var sp int64
		var serr error
		pan, hung = vf.Guard(func() { sp, serr = hackpadfs.SeekFile(h.sub, a.Off, a.Whence) })
		if pan != "" || hung {
			return fail("crash", "%s hung=%v", pan, hung)
		}
		base += fmt.Sprintf(":whence%d", a.Whence)
		m.lastFailed = rerr != nil
		if (rerr == nil) != (serr == nil) || (rerr == nil && rp != sp) {
			return base + ":result", fmt.Sprintf("%v: os=(%d,%v) impl=(%d,%v)", a, rp, rerr, sp, serr)
		}
	case "truncate":
		before := m.refSize()
		rerr := h.ref.Truncate(a.Off)
		var serr error
		pan, hung = vf.Guard(func() { serr = hackpadfs.TruncateFile(h.sub, a.Off) })
		if pan != "" || hung {
			return fail("crash", "%s hung=%v", pan, hung)
		}
		base += ":" + rel(a.Off, before)
		m.lastFailed = rerr != nil
		if (rerr == nil) != (serr == nil) {
			return base + ":result", fmt.Sprintf("%v size=%d: os=%v impl=%v", a, before, rerr, serr)
		}
		if m.refSize() != before {
			m.noteSizeChange(a.Slot)
		}
	case "stat":
		rfi, rerr := h.ref.Stat()
		var sfi hackpadfs.FileInfo
		var serr error
		pan, hung = vf.Guard(func() { sfi, serr = h.sub.Stat() })
		if pan != "" || hung {
			return fail("crash", "%s hung=%v", pan, hung)
		}
		if (rerr == nil) != (serr == nil) {
			return base + ":result", fmt.Sprintf("%v: os=%v impl=%v", a, rerr, serr)
		}
		if rerr == nil {
			if rfi.IsDir() != sfi.IsDir() || rfi.Name() != sfi.Name() || rfi.Mode().Perm() != sfi.Mode().Perm() || (!rfi.IsDir() && rfi.Size() != sfi.Size()) {
				return base + ":info", fmt.Sprintf("%v: os={%s dir=%v %v size=%d} impl={%s dir=%v %v size=%d}", a,
					rfi.Name(), rfi.IsDir(), rfi.Mode().Perm(), rfi.Size(), sfi.Name(), sfi.IsDir(), sfi.Mode().Perm(), sfi.Size())
			}
		}
	default:
		panic("unknown action " + a.K)
	}
	// after every call: contents and every handle's offset agree
	want, err := os.ReadFile(m.w.Root + "/f")
	var got []byte
	var gerr error
	pan, hung = vf.Guard(func() { got, gerr = hackpadfs.ReadFile(m.fs, "f") })
	if pan != "" || hung {
		return base + ":contents-crash", fmt.Sprintf("after %v: ReadFile %s hung=%v", a, pan, hung)
	}
	if err != nil {
		// still missing on the reference side
		if gerr == nil {
			return base + ":contents", fmt.Sprintf("after %v: the file does not exist for os (%v) but impl reads %q", a, err, got)
		}
		return "", ""
	}
	if gerr != nil || !bytes.Equal(want, got) {
		return base + ":contents", fmt.Sprintf("after %v: os=%q impl=%q (%v)", a, want, got, gerr)
	}
	for i, s := range m.slots {
		if s == nil || s.isDir {
			continue
		}
		rp, rerr := s.ref.Seek(0, io.SeekCurrent)
		var sp int64
		var serr error
		pan, hung = vf.Guard(func() { sp, serr = hackpadfs.SeekFile(s.sub, 0, io.SeekCurrent) })
		if pan != "" || hung {
			return base + ":offset-crash", fmt.Sprintf("after %v: h%d %s hung=%v", a, i, pan, hung)
		}
		if rerr != nil || serr != nil || rp != sp {
			who := "self"
			if i != a.Slot {
				who = "other"
			}
			return base + ":offset-" + who, fmt.Sprintf("after %v: offset of h%d os=(%d,%v) impl=(%d,%v)", a, i, rp, rerr, sp, serr)
		}
	}
	return "", ""
}

func (m *machine) noteSizeChange(slot int) {
	m.sizeChangedBy[slot] = true
}

// ------------------------------------------------------------------ generation

func drawAct(t *rapid.T, m *machine) Act {
	slot := rapid.IntRange(0, len(m.slots)-1).Draw(t, "slot")
	if m.kind == "kvplain" {
		slot = 0 // a plain Store hands out snapshot copies per handle by design: single-handle subset only
	}
	h := m.slots[slot]
	if h == nil {
		a := Act{K: "open", Slot: slot, Target: "f"}
		if rapid.IntRange(0, 9).Draw(t, "dir") == 0 {
			a.Target = "d"
			a.Flag = os.O_RDONLY
			return a
		}
		a.Flag = rapid.SampledFrom([]int{os.O_RDONLY, os.O_WRONLY, os.O_RDWR, os.O_RDWR}).Draw(t, "acc")
		if rapid.IntRange(0, 3).Draw(t, "append") == 0 {
			a.Flag |= os.O_APPEND
		}
		if rapid.IntRange(0, 5).Draw(t, "trunc") == 0 {
			a.Flag |= os.O_TRUNC
		}
		createOdds := 5
		if !m.refExists() {
			createOdds = 1 // the file is missing: the open that creates it is the interesting one
		}
		if rapid.IntRange(0, createOdds).Draw(t, "create") == 0 {
			a.Flag |= os.O_CREATE
			if rapid.IntRange(0, 3).Draw(t, "excl") == 0 {
				a.Flag |= os.O_EXCL
			}
		}
		return a
	}
	size := m.refSize()
	off := func(label string) int64 {
		return int64(rapid.IntRange(-2, int(size)+12).Draw(t, label))
	}
	count := func(label string) int {
		switch rapid.IntRange(0, 19).Draw(t, label+".big") {
		case 0:
			return rapid.SampledFrom([]int{600, 5000}).Draw(t, label+".huge")
		}
		return rapid.IntRange(0, 48).Draw(t, label)
	}
	payload := func() []byte {
		if rapid.IntRange(0, 29).Draw(t, "bigdata") == 0 {
			return bytes.Repeat([]byte{'Z'}, rapid.SampledFrom([]int{600, 5000}).Draw(t, "bigsize"))
		}
		b := rapid.SliceOfN(rapid.ByteRange('A', 'Z'), 0, 16).Draw(t, "data")
		if b == nil {
			b = []byte{}
		}
		return b
	}
	if h.isDir {
		k := rapid.SampledFrom([]string{"read", "stat", "close"}).Draw(t, "dirkind")
		return Act{K: k, Slot: slot, N: 8}
	}
	k := rapid.SampledFrom([]string{"read", "read", "readat", "write", "write", "writeat", "seek", "seek", "truncate", "stat", "close"}).Draw(t, "kind")
	if !h.used && rapid.IntRange(0, 2).Draw(t, "freshseek") == 0 {
		// a handle that has not touched the data yet: position-only calls are where a stale size would show
		k = "seek"
	}
	a := Act{K: k, Slot: slot}
	// a zero-length read on a write-only handle is not generated: os.File short-circuits len(p)==0 to (0,nil)
	// before looking at the descriptor, which the statement's "a write-only handle can never read" does not pin.
	wo := h.flag&3 == os.O_WRONLY
	ro := h.flag&3 == os.O_RDONLY
	switch k {
	case "read":
		a.N = count("n")
		if wo && a.N == 0 {
			a.N = 1
		}
	case "readat":
		a.N = count("n")
		if wo && a.N == 0 {
			a.N = 1
		}
		a.Off = off("off")
	case "write":
		a.Data = payload()
		if ro && len(a.Data) == 0 {
			a.Data = []byte("Q")
		}
	case "writeat":
		a.Data = payload()
		if ro && len(a.Data) == 0 {
			a.Data = []byte("Q") // zero-length WriteAt never reaches the descriptor in os.File (same carve-out as zero-length reads)
		}
		a.Off = off("off")
	case "seek":
		a.Whence = rapid.SampledFrom([]int{0, 0, 1, 1, 2, 2, 7}).Draw(t, "whence")
		if !h.used {
			a.Whence = rapid.SampledFrom([]int{2, 2, 2, 0, 1}).Draw(t, "freshwhence")
		}
		switch a.Whence {
		case 2:
			a.Off = int64(rapid.IntRange(-int(size)-2, 12).Draw(t, "off"))
		case 1:
			a.Off = int64(rapid.IntRange(-10, 10).Draw(t, "off"))
		default:
			a.Off = off("off")
		}
	case "truncate":
		a.Off = off("size")
		if rapid.IntRange(0, 19).Draw(t, "bigtrunc") == 0 {
			a.Off = 5000
		}
	}
	return a
}

// situation key used for known findings (before execution).
func situation(m *machine, a Act) string {
	h := m.slots[a.Slot]
	if h == nil {
		return a.K + "[" + accName(a.Flag) + "," + a.Target + "]"
	}
	s := a.K + "[" + accName(h.flag)
	if h.isDir {
		s += ",dir"
	}
	return s + "]"
}

func run(t *testing.T, kind string) {
	vf.Check(t, kind, func(rt *rapid.T, rec *vf.Rec) {
		m := newMachine(kind)
		defer m.close()
		if rapid.IntRange(0, 3).Draw(rt, "startmissing") == 0 {
			a := Act{K: "unlink"}
			rec.Step(a)
			rec.Class("start-missing")
			if sig, msg := m.step(a); sig != "" {
				rec.Failf(rt, sig, "%s", msg)
			}
		}
		rt.Repeat(map[string]func(*rapid.T){
			"act": func(rt *rapid.T) {
				a := drawAct(rt, m)
				if k := knownSig(m, a); k != "" {
					rec.Excluded(k)
					rt.Skip("known finding " + k)
				}
				rec.Step(a)
				rec.Class("act:" + a.K)
				sig, msg := m.step(a)
				if sig != "" {
					if len(sig) > 5 && sig[len(sig)-5:] == "crash" && msgHung(msg) {
						rec.HangExit(sig, "%s", msg)
					}
					rec.Failf(rt, sig, "%s", msg)
				}
			},
		})
		if m.multi {
			rec.Class("multi-handle")
		}
		if m.nontrivial {
			rec.NonTrivial()
		}
	})
}

func msgHung(msg string) bool { return bytes.Contains([]byte(msg), []byte("hung=true")) }

func TestMem(t *testing.T)     { run(t, "mem") }
func TestKVPlain(t *testing.T) { run(t, "kvplain") }

func replay(kind string) func(steps []json.RawMessage) (string, string) {
	return func(steps []json.RawMessage) (string, string) {
		m := newMachine(kind)
		defer m.close()
		for _, raw := range steps {
			var a Act
			if err := json.Unmarshal(raw, &a); err != nil {
				return "bad-replay", err.Error()
			}
			if sig, msg := m.step(a); sig != "" {
				return sig, msg
			}
		}
		return "", ""
	}
}

func TestReplayMem(t *testing.T)     { vf.Replay(t, "mem", replay("mem")) }
func TestReplayKVPlain(t *testing.T) { vf.Replay(t, "kvplain", replay("kvplain")) }

// ------------------------------------------------------------------ known findings

type knownDef struct {
	sig   string
	match func(m *machine, a Act) bool
	probe func() (bool, string)
}

var knownMap = []knownDef{
	{
		sig: "C02:read-directory-handle",
		match: func(m *machine, a Act) bool {
			h := m.slots[a.Slot]
			return h != nil && h.isDir && a.K == "read"
		},
		probe: func() (bool, string) {
			fs, _ := mem.NewFS()
			f, err := fs.Open(".")
			if err != nil {
				return false, err.Error()
			}
			defer f.Close()
			n, err := f.Read(make([]byte, 4))
			return err == nil || errors.Is(err, io.EOF), fmt.Sprintf("Read on a directory handle = (%d, %v)", n, err)
		},
	},
}

func knownSig(m *machine, a Act) string {
	for _, k := range knownMap {
		if k.match(m, a) && vf.Known(k.sig) {
			return k.sig
		}
	}
	return ""
}

func registerProbes() {
	for _, k := range knownMap {
		vf.RegisterProbe(k.sig, k.probe)
	}
}
