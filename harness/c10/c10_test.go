// C10: the read-only cache is transparent: what it serves is what the source holds.
package c10

import (
	"bytes"
	"encoding/json"
	"fmt"
	"io"
	"sort"
	"strings"
	"sync"
	"testing"

	"github.com/hack-pad/hackpadfs"
	"github.com/hack-pad/hackpadfs/cache"
	"pgregory.net/rapid"

	"verifharness/internal/masks"
	"verifharness/internal/subj"
	"verifharness/internal/vf"
)

func TestMain(m *testing.M) { vf.Main(m) }

func must(err error) {
	if err != nil {
		panic(err)
	}
}

// ------------------------------------------------------------------ counting source wrapper

type countingFS struct {
	inner  hackpadfs.FS
	noSeek bool
	short  int // > 0: a Read hands back at most this many bytes (a network / decompressing source), as io.Reader allows
	mu     sync.Mutex
	opens  map[string]int
	// reads on source handles, attributed to the epoch (number of completed cache.Open calls for that name) in which the handle was opened
	readsByOpenIndex map[string]map[int]int
	epoch            map[string]int
}

func newCounting(inner hackpadfs.FS, noSeek bool) *countingFS {
	return &countingFS{inner: inner, noSeek: noSeek, opens: map[string]int{}, readsByOpenIndex: map[string]map[int]int{}, epoch: map[string]int{}}
}

func (c *countingFS) Open(name string) (hackpadfs.File, error) {
	f, err := c.inner.Open(name)
	if err != nil {
		return nil, err
	}
	c.mu.Lock()
	c.opens[name]++
	ep := c.epoch[name]
	c.mu.Unlock()
	cf := &countingFile{File: f, fs: c, name: name, epoch: ep}
	if c.noSeek {
		return noSeekFile{cf}, nil
	}
	return cf, nil
}

type countingFile struct {
	hackpadfs.File
	fs    *countingFS
	name  string
	epoch int
}

func (f *countingFile) Read(p []byte) (int, error) {
	f.fs.mu.Lock()
	if f.fs.readsByOpenIndex[f.name] == nil {
		f.fs.readsByOpenIndex[f.name] = map[int]int{}
	}
	f.fs.readsByOpenIndex[f.name][f.epoch]++
	f.fs.mu.Unlock()
	if f.fs.short > 0 && len(p) > f.fs.short {
		p = p[:f.fs.short]
	}
	return f.File.Read(p)
}

func (f *countingFile) Seek(off int64, whence int) (int64, error) {
	return hackpadfs.SeekFile(f.File, off, whence)
}

func (f *countingFile) ReadDir(n int) ([]hackpadfs.DirEntry, error) {
	return hackpadfs.ReadDirFile(f.File, n)
}

// noSeekFile hides Seek.
type noSeekFile struct{ f *countingFile }

func (n noSeekFile) Stat() (hackpadfs.FileInfo, error)           { return n.f.Stat() }
func (n noSeekFile) Read(p []byte) (int, error)                  { return n.f.Read(p) }
func (n noSeekFile) Close() error                                { return n.f.Close() }
func (n noSeekFile) ReadDir(c int) ([]hackpadfs.DirEntry, error) { return n.f.ReadDir(c) }

// ------------------------------------------------------------------ case

type FileSpec struct {
	Path string `json:"path"`
	Size int    `json:"size"`
	Perm uint32 `json:"perm"`
}

type Action struct {
	K    string `json:"k"` // open read seek stat readdir close fsstat fsreaddir
	Slot int    `json:"slot,omitempty"`
	Name string `json:"name,omitempty"`
	N    int    `json:"n,omitempty"`
	Off  int64  `json:"off,omitempty"`
}

type Header struct {
	Dirs   []string   `json:"dirs"`
	Files  []FileSpec `json:"files"`
	Retain string     `json:"retain"` // default never name size
	Store  string     `json:"store"`  // mem minimal
	NoSeek bool       `json:"noseek"`
	// ShortRead: the source's Read returns at most this many bytes per call (0 = as many as asked)
	ShortRead int `json:"short_read,omitempty"`
}

func content(path string, size int) []byte {
	b := make([]byte, size)
	for i := range b {
		b[i] = byte('a' + (i*7+len(path)*3+i/13)%26)
	}
	return b
}

func buildSource(h Header) hackpadfs.FS {
	fs := subj.NewMem()
	for _, d := range h.Dirs {
		must(fs.MkdirAll(d, 0o755))
	}
	for _, f := range h.Files {
		must(hackpadfs.WriteFullFile(fs, f.Path, content(f.Path, f.Size), hackpadfs.FileMode(f.Perm)))
	}
	return fs
}

func retainFunc(kind string) func(string, hackpadfs.FileInfo) bool {
	switch kind {
	case "never":
		return func(string, hackpadfs.FileInfo) bool { return false }
	case "name":
		return func(name string, _ hackpadfs.FileInfo) bool { return strings.Contains(name, "a") }
	case "size":
		return func(_ string, info hackpadfs.FileInfo) bool { return info.Size() <= 512 }
	}
	return nil
}

type handle struct {
	c, s         hackpadfs.File // cache handle, twin source handle
	name         string
	dir          bool
	seenC, seenS map[string]bool
}

type machine struct {
	h             Header
	cfs           *cache.ReadOnlyFS
	counting      *countingFS
	twin          hackpadfs.FS
	store         hackpadfs.FS
	slots         [3]*handle
	retained      map[string]bool // files whose retained Open succeeded
	firstRetained map[string]int
	nontrivial    bool
	pages         map[int]int
}

func newMachine(h Header) *machine {
	m := &machine{h: h, twin: buildSource(h), retained: map[string]bool{}, firstRetained: map[string]int{}, pages: map[int]int{}}
	m.counting = newCounting(buildSource(h), h.NoSeek)
	m.counting.short = h.ShortRead
	inner := subj.NewMem()
	m.store = inner
	var err error
	if h.Store == "minimal" {
		ms := masks.New(inner, []string{"OpenFileFS", "MkdirFS"}, &masks.Hooks{})
		m.cfs, err = cache.NewReadOnlyFS(m.counting, ms.(interface {
			hackpadfs.OpenFileFS
			hackpadfs.MkdirFS
		}), cache.ReadOnlyOptions{RetainData: retainFunc(h.Retain)})
	} else {
		m.cfs, err = cache.NewReadOnlyFS(m.counting, inner, cache.ReadOnlyOptions{RetainData: retainFunc(h.Retain)})
	}
	must(err)
	return m
}

func (m *machine) isRetained(name string) bool {
	fi, err := hackpadfs.Stat(m.twin, name)
	if err != nil || fi.IsDir() {
		return false
	}
	r := retainFunc(m.h.Retain)
	return r == nil || r(name, fi)
}

func infoStr(fi hackpadfs.FileInfo) string {
	if fi.IsDir() {
		return fmt.Sprintf("%s dir %v", fi.Name(), fi.Mode().Perm())
	}
	return fmt.Sprintf("%s file %v size=%d", fi.Name(), fi.Mode().Perm(), fi.Size())
}

func (m *machine) step(a Action) (string, string) {
	var sig, msg string
	pan, hung := vf.Guard(func() { sig, msg = m.stepInner(a) })
	if hung {
		return "C10 " + a.K + ":hang", fmt.Sprintf("%+v did not return", a)
	}
	if pan != "" {
		return "C10 " + a.K + ":panic", fmt.Sprintf("%+v: %s", a, pan)
	}
	if sig == "" {
		// once a retained file was opened successfully, handles of later opens never read the source
		m.counting.mu.Lock()
		for name, first := range m.firstRetained {
			for ep, n := range m.counting.readsByOpenIndex[name] {
				if ep >= first && n > 0 {
					sig, msg = "C10 "+a.K+":source-read-after-cached", fmt.Sprintf("after %+v: %d Read calls reached the source through a handle of %q opened after the file had been cached", a, n, name)
				}
			}
		}
		m.counting.mu.Unlock()
	}
	return sig, msg
}

func (m *machine) stepInner(a Action) (string, string) {
	base := "C10 " + a.K
	switch a.K {
	case "open":
		if old := m.slots[a.Slot]; old != nil {
			_ = old.c.Close()
			_ = old.s.Close()
			m.slots[a.Slot] = nil
		}
		already := m.retained[a.Name]
		var before int
		m.counting.mu.Lock()
		for _, n := range m.counting.readsByOpenIndex[a.Name] {
			before += n
		}
		m.counting.mu.Unlock()
		cf, cerr := m.cfs.Open(a.Name)
		sf, serr := m.twin.Open(a.Name)
		if (cerr == nil) != (serr == nil) {
			return base + ":success-differs", fmt.Sprintf("Open(%q): cache %v, source %v", a.Name, cerr, serr)
		}
		if cerr != nil {
			return "", ""
		}
		m.counting.mu.Lock()
		m.counting.epoch[a.Name]++
		var after int
		for _, n := range m.counting.readsByOpenIndex[a.Name] {
			after += n
		}
		m.counting.mu.Unlock()
		fi, _ := sf.Stat()
		h := &handle{c: cf, s: sf, name: a.Name, dir: fi.IsDir(), seenC: map[string]bool{}, seenS: map[string]bool{}}
		m.slots[a.Slot] = h
		if already {
			if after != before {
				return base + ":source-read-again", fmt.Sprintf("Open(%q) of an already cached retained file read the source again (%d Read calls)", a.Name, after-before)
			}
			if fi.Size() > 512 {
				m.nontrivial = true
			}
		}
		if m.isRetained(a.Name) && !m.retained[a.Name] {
			m.retained[a.Name] = true
			m.counting.mu.Lock()
			m.firstRetained[a.Name] = m.counting.epoch[a.Name] // source handles opened from now on belong to later opens
			m.counting.mu.Unlock()
		}
	case "close":
		h := m.slots[a.Slot]
		if h == nil {
			return "", ""
		}
		cerr := h.c.Close()
		_ = h.s.Close()
		m.slots[a.Slot] = nil
		if cerr != nil {
			return base + ":error", fmt.Sprintf("Close of %q: %v", h.name, cerr)
		}
	case "closedops":
		// the calls of the statement on a handle that has been closed: the cache answers as the source does (an error)
		h := m.slots[a.Slot]
		if h == nil {
			return "", ""
		}
		cerr := h.c.Close()
		_ = h.s.Close()
		m.slots[a.Slot] = nil
		if cerr != nil {
			return base + ":close-error", fmt.Sprintf("Close of %q: %v", h.name, cerr)
		}
		m.nontrivial = true
		_, cse := h.c.Stat()
		_, sse := h.s.Stat()
		if (cse == nil) != (sse == nil) {
			return base + ":stat", fmt.Sprintf("Stat on the closed handle of %q: cache %v, source %v", h.name, cse, sse)
		}
		if h.dir {
			_, cre := hackpadfs.ReadDirFile(h.c, a.N)
			_, sre := hackpadfs.ReadDirFile(h.s, a.N)
			if (cre == nil) != (sre == nil) {
				return base + ":readdir", fmt.Sprintf("ReadDir(%d) on the closed handle of %q: cache %v, source %v", a.N, h.name, cre, sre)
			}
		} else {
			_, cre := h.c.Read(make([]byte, 8))
			_, sre := h.s.Read(make([]byte, 8))
			if (cre == nil) != (sre == nil) {
				return base + ":read", fmt.Sprintf("Read on the closed handle of %q: cache %v, source %v", h.name, cre, sre)
			}
		}
		cce, sce := h.c.Close(), h.s.Close()
		if (cce == nil) != (sce == nil) {
			return base + ":close", fmt.Sprintf("second Close of %q: cache %v, source %v", h.name, cce, sce)
		}
	case "read":
		h := m.slots[a.Slot]
		if h == nil || h.dir {
			return "", ""
		}
		// all reads on a handle obtained after the file was cached must not touch the source; counted in "open" via epochs
		cb, sb := make([]byte, a.N), make([]byte, a.N)
		cn, cerr := io.ReadFull(h.c, cb)
		sn, serr := io.ReadFull(h.s, sb)
		if cn != sn || !bytes.Equal(cb[:cn], sb[:sn]) {
			return base + ":bytes", fmt.Sprintf("read(%d) of %q: cache %d bytes %q..., source %d bytes %q...", a.N, h.name, cn, head(cb[:cn]), sn, head(sb[:sn]))
		}
		if (cerr == nil) != (serr == nil) {
			return base + ":eof", fmt.Sprintf("read(%d) of %q: cache err %v, source err %v", a.N, h.name, cerr, serr)
		}
	case "seek":
		h := m.slots[a.Slot]
		if h == nil || h.dir || m.h.NoSeek {
			return "", ""
		}
		cp, cerr := hackpadfs.SeekFile(h.c, a.Off, io.SeekStart)
		sp, serr := hackpadfs.SeekFile(h.s, a.Off, io.SeekStart)
		if (cerr == nil) != (serr == nil) || cp != sp {
			return base + ":result", fmt.Sprintf("seek(%d) of %q: cache (%d,%v), source (%d,%v)", a.Off, h.name, cp, cerr, sp, serr)
		}
	case "stat":
		h := m.slots[a.Slot]
		if h == nil {
			return "", ""
		}
		ci, cerr := h.c.Stat()
		si, serr := h.s.Stat()
		if cerr != nil || serr != nil {
			return base + ":error", fmt.Sprintf("handle Stat of %q: cache %v, source %v", h.name, cerr, serr)
		}
		if infoStr(ci) != infoStr(si) {
			return base + ":info", fmt.Sprintf("handle Stat of %q: cache {%s}, source {%s}", h.name, infoStr(ci), infoStr(si))
		}
	case "readdir":
		h := m.slots[a.Slot]
		if h == nil || !h.dir {
			return "", ""
		}
		cd, cerr := hackpadfs.ReadDirFile(h.c, a.N)
		sd, serr := hackpadfs.ReadDirFile(h.s, a.N)
		if len(cd) != len(sd) || (cerr == nil) != (serr == nil) || (cerr == io.EOF) != (serr == io.EOF) {
			return base + ":page", fmt.Sprintf("ReadDir(%d) of %q: cache (%d entries, %v), source (%d entries, %v)", a.N, h.name, len(cd), cerr, len(sd), serr)
		}
		m.pages[a.Slot]++
		if m.pages[a.Slot] >= 2 {
			m.nontrivial = true
		}
		for _, de := range cd {
			if h.seenC[de.Name()] {
				return base + ":duplicate", fmt.Sprintf("ReadDir of %q returned %q twice", h.name, de.Name())
			}
			h.seenC[de.Name()] = true
			fi, err := hackpadfs.Stat(m.twin, joinName(h.name, de.Name()))
			if err != nil || fi.IsDir() != de.IsDir() {
				return base + ":entry", fmt.Sprintf("ReadDir of %q: entry %q dir=%v, source says %v %v", h.name, de.Name(), de.IsDir(), fi, err)
			}
		}
		for _, de := range sd {
			h.seenS[de.Name()] = true
		}
		if serr == io.EOF || a.N <= 0 {
			// the listing is complete on both sides: same set
			if fmt.Sprint(keys(h.seenC)) != fmt.Sprint(keys(h.seenS)) {
				return base + ":set", fmt.Sprintf("complete listing of %q: cache %v, source %v", h.name, keys(h.seenC), keys(h.seenS))
			}
		}
	case "fsstat":
		ci, cerr := hackpadfs.Stat(m.cfs, a.Name)
		si, serr := hackpadfs.Stat(m.twin, a.Name)
		if (cerr == nil) != (serr == nil) {
			return base + ":success-differs", fmt.Sprintf("Stat(%q): cache %v, source %v", a.Name, cerr, serr)
		}
		if cerr == nil && infoStr(ci) != infoStr(si) {
			return base + ":info", fmt.Sprintf("Stat(%q): cache {%s}, source {%s}", a.Name, infoStr(ci), infoStr(si))
		}
	case "fsreaddir":
		cd, cerr := hackpadfs.ReadDir(m.cfs, a.Name)
		sd, serr := hackpadfs.ReadDir(m.twin, a.Name)
		if (cerr == nil) != (serr == nil) {
			return base + ":success-differs", fmt.Sprintf("ReadDir(%q): cache %v, source %v", a.Name, cerr, serr)
		}
		var cn, sn []string
		for _, de := range cd {
			cn = append(cn, fmt.Sprintf("%s:%v", de.Name(), de.IsDir()))
		}
		for _, de := range sd {
			sn = append(sn, fmt.Sprintf("%s:%v", de.Name(), de.IsDir()))
		}
		if fmt.Sprint(cn) != fmt.Sprint(sn) {
			return base + ":entries", fmt.Sprintf("ReadDir(%q): cache %v, source %v", a.Name, cn, sn)
		}
	}
	return "", ""
}

func head(b []byte) []byte {
	if len(b) > 12 {
		return b[:12]
	}
	return b
}

func keys(m map[string]bool) []string {
	var k []string
	for n := range m {
		k = append(k, n)
	}
	sort.Strings(k)
	return k
}

func joinName(dir, name string) string {
	if dir == "." {
		return name
	}
	return dir + "/" + name
}

var sizes = []int{0, 1, 511, 512, 513, 1024, 1500, 5000}

func genHeader(t *rapid.T) Header {
	h := Header{
		Retain:    rapid.SampledFrom([]string{"default", "default", "never", "name", "size"}).Draw(t, "retain"),
		Store:     rapid.SampledFrom([]string{"mem", "minimal"}).Draw(t, "store"),
		NoSeek:    rapid.Bool().Draw(t, "noseek"),
		ShortRead: rapid.SampledFrom([]int{0, 0, 0, 1, 7, 100, 300}).Draw(t, "shortread"),
	}
	dirs := []string{"."}
	nd := rapid.IntRange(0, 3).Draw(t, "ndirs")
	for i := 0; i < nd; i++ {
		parent := rapid.SampledFrom(dirs).Draw(t, "parent")
		d := joinName(parent, rapid.SampledFrom([]string{"a", "b", "c"}).Draw(t, "dname"))
		dup := false
		for _, x := range dirs {
			if x == d {
				dup = true
			}
		}
		if !dup {
			dirs = append(dirs, d)
			h.Dirs = append(h.Dirs, d)
		}
	}
	nf := rapid.IntRange(1, 6).Draw(t, "nfiles")
	used := map[string]bool{}
	for _, d := range dirs {
		used[d] = true
	}
	for i := 0; i < nf; i++ {
		p := joinName(rapid.SampledFrom(dirs).Draw(t, "fdir"), rapid.SampledFrom([]string{"a", "b", "c", "fa", "fb"}).Draw(t, "fname"))
		if used[p] {
			continue
		}
		used[p] = true
		h.Files = append(h.Files, FileSpec{Path: p, Size: rapid.SampledFrom(sizes).Draw(t, "size"), Perm: rapid.SampledFrom([]uint32{0o644, 0o600, 0o755, 0o444}).Draw(t, "perm")})
	}
	return h
}

func genAction(t *rapid.T, h Header) Action {
	var all []string
	all = append(all, ".")
	all = append(all, h.Dirs...)
	for _, f := range h.Files {
		all = append(all, f.Path, f.Path) // files twice as likely
	}
	all = append(all, "missing", "a/missing")
	a := Action{K: rapid.SampledFrom([]string{"open", "open", "open", "read", "read", "read", "seek", "stat", "readdir", "readdir", "close", "closedops", "fsstat", "fsreaddir"}).Draw(t, "k")}
	a.Slot = rapid.IntRange(0, 2).Draw(t, "slot")
	switch a.K {
	case "open", "fsstat", "fsreaddir":
		a.Name = rapid.SampledFrom(all).Draw(t, "name")
		if rapid.IntRange(0, 7).Draw(t, "misspelt") == 0 {
			// an invalid spelling of a name the source serves: the cache must answer exactly as the source does (refuse it),
			// also after the clean spelling has been served and remembered
			switch rapid.IntRange(0, 4).Draw(t, "spelling") {
			case 0:
				a.Name = "./" + a.Name
			case 1:
				a.Name += "/"
			case 2:
				a.Name = strings.Replace(a.Name, "/", "//", 1)
			case 3:
				a.Name = "x/../" + a.Name
			default:
				a.Name = strings.Replace(a.Name, "/", "/./", 1)
			}
		}
	case "read":
		a.N = rapid.SampledFrom([]int{0, 1, 7, 100, 511, 512, 513, 600, 2000, 6000}).Draw(t, "n")
	case "seek":
		a.Off = int64(rapid.SampledFrom([]int{0, 1, 511, 512, 513, 1499, 6000}).Draw(t, "off"))
	case "readdir", "closedops":
		a.N = rapid.SampledFrom([]int{1, 2, 3, 100, 0, -1}).Draw(t, "n")
	}
	return a
}

func TestCache(t *testing.T) {
	vf.Check(t, "cache", func(rt *rapid.T, rec *vf.Rec) {
		h := genHeader(rt)
		rec.Step(h)
		rec.Class("retain:" + h.Retain)
		rec.Class("store:" + h.Store)
		m := newMachine(h)
		rt.Repeat(map[string]func(*rapid.T){
			"act": func(rt *rapid.T) {
				a := genAction(rt, h)
				rec.Step(a)
				if sig, msg := m.step(a); sig != "" {
					rec.Failf(rt, sig, "%s", msg)
				}
			},
		})
		if m.nontrivial {
			rec.NonTrivial()
		}
	})
}

func TestReplayAll(t *testing.T) {
	vf.Replay(t, "cache", func(steps []json.RawMessage) (string, string) {
		if len(steps) == 0 {
			return "", ""
		}
		var h Header
		if err := json.Unmarshal(steps[0], &h); err != nil {
			return "bad-replay", err.Error()
		}
		m := newMachine(h)
		for _, raw := range steps[1:] {
			var a Action
			if err := json.Unmarshal(raw, &a); err != nil {
				return "bad-replay", err.Error()
			}
			if sig, msg := m.step(a); sig != "" {
				return sig, msg
			}
		}
		return "", ""
	})
}
