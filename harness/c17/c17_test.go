// C17: closed handles fail cleanly and handles never resurrect removed names.
package c17

import (
	"archive/tar"
	"bytes"
	"context"
	"encoding/json"
	"errors"
	"fmt"
	"io"
	"os"
	"testing"
	"time"

	"github.com/hack-pad/hackpadfs"
	"github.com/hack-pad/hackpadfs/cache"
	"github.com/hack-pad/hackpadfs/keyvalue"
	"github.com/hack-pad/hackpadfs/mount"
	htar "github.com/hack-pad/hackpadfs/tar"
	"pgregory.net/rapid"

	"verifharness/internal/kvstore"
	"verifharness/internal/subj"
	"verifharness/internal/vf"
	"verifharness/internal/world"
)

func TestMain(m *testing.M) {
	world.Init()
	registerProbes()
	vf.Main(m, world.Cleanup)
}

func must(err error) {
	if err != nil {
		panic(err)
	}
}

var kinds = []string{"mem", "kvplain", "mount", "submem", "cache", "tar", "osfs"}
var methods = []string{"read", "readat", "write", "writeat", "seek", "stat", "readdir", "truncate", "chmod", "sync", "close"}

// boundary-argument variants of the methods above (see call)
var variants = []string{"read:0", "readat:0", "write:0", "writeat:0", "seek:cur", "readdir:all", "truncate:same",
	// arguments that are invalid on an open handle too: which of the two complaints wins on a closed one is what os.File says
	"truncate:neg", "readat:neg", "writeat:neg", "seek:neg", "seek:end"}

type built struct {
	fs       hackpadfs.FS
	readOnly bool
	close    func()
}

// build returns a subject holding the regular file "f" ("hello world") and the directory "d" (one child).
func build(kind string) built {
	populate := func(fs hackpadfs.FS) {
		must(hackpadfs.WriteFullFile(fs, "f", []byte("hello world"), 0o644))
		must(hackpadfs.Mkdir(fs, "d", 0o755))
		must(hackpadfs.WriteFullFile(fs, "d/x", []byte("x"), 0o644))
	}
	switch kind {
	case "mem":
		fs := subj.NewMem()
		populate(fs)
		return built{fs: fs, close: func() {}}
	case "kvplain":
		fs, err := keyvalue.NewFS(kvstore.New())
		must(err)
		populate(fs)
		return built{fs: fs, close: func() {}}
	case "mount":
		root := subj.NewMem()
		must(root.Mkdir("m", 0o755))
		mm := subj.NewMem()
		populate(mm)
		mfs, err := mount.NewFS(root)
		must(err)
		must(mfs.AddMount("m", mm))
		sub, err := hackpadfs.Sub(mfs, "m") // address the mounted FS as "f", "d" through the mount layer
		must(err)
		return built{fs: sub, close: func() {}}
	case "submem":
		parent := subj.NewMem()
		must(parent.MkdirAll("s/t", 0o755))
		view, err := hackpadfs.Sub(parent, "s/t")
		must(err)
		populate(view)
		return built{fs: view, close: func() {}}
	case "osfs":
		w := world.New()
		fs := subj.OSFS(w.Root, 1)
		populate(fs)
		return built{fs: fs, close: w.Close}
	case "cache":
		src := subj.NewMem()
		populate(src)
		c, err := cache.NewReadOnlyFS(src, subj.NewMem(), cache.ReadOnlyOptions{})
		must(err)
		return built{fs: c, readOnly: true, close: func() {}}
	case "tar":
		var buf bytes.Buffer
		tw := tar.NewWriter(&buf)
		must(tw.WriteHeader(&tar.Header{Name: "f", Typeflag: tar.TypeReg, Mode: 0o644, Size: 11}))
		_, err := tw.Write([]byte("hello world"))
		must(err)
		must(tw.WriteHeader(&tar.Header{Name: "d/", Typeflag: tar.TypeDir, Mode: 0o755}))
		must(tw.WriteHeader(&tar.Header{Name: "d/x", Typeflag: tar.TypeReg, Mode: 0o644, Size: 1}))
		_, err = tw.Write([]byte("x"))
		must(err)
		must(tw.Close())
		tfs, err := htar.NewReaderFS(context.Background(), &buf, htar.ReaderFSOptions{})
		must(err)
		select {
		case <-tfs.Done():
		case <-time.After(vf.WatchdogDur()):
			panic("tar unpack did not finish")
		}
		return built{fs: tfs, readOnly: true, close: func() {}}
	}
	panic(kind)
}

func openKind(fs hackpadfs.FS, hk string) (hackpadfs.File, error) {
	switch hk {
	case "ro":
		return fs.Open("f")
	case "wo":
		return hackpadfs.OpenFile(fs, "f", hackpadfs.FlagWriteOnly, 0)
	case "rw":
		return hackpadfs.OpenFile(fs, "f", hackpadfs.FlagReadWrite, 0)
	case "dir":
		return fs.Open("d")
	}
	panic(hk)
}

func osOpenKind(root, hk string) *os.File {
	var f *os.File
	var err error
	switch hk {
	case "ro":
		f, err = os.Open(root + "/f")
	case "wo":
		f, err = os.OpenFile(root+"/f", os.O_WRONLY, 0)
	case "rw":
		f, err = os.OpenFile(root+"/f", os.O_RDWR, 0)
	case "dir":
		f, err = os.Open(root + "/d")
	}
	must(err)
	return f
}

// call invokes one method through the file helpers. supported reports whether the handle has the method at all.
//
// A method name may carry a boundary-argument variant after a colon ("write:0" = empty buffer, "seek:cur" = Seek(0, current),
// "readdir:all" = n <= 0, "truncate:same" = the current size): the degenerate calls an implementation is tempted to answer
// before looking at the handle.
func call(f hackpadfs.File, method string) (err error, supported bool) {
	supported = true
	switch method {
	case "read":
		_, err = f.Read(make([]byte, 4))
	case "read:0":
		_, err = f.Read([]byte{})
	case "readat":
		_, supported = f.(hackpadfs.ReaderAtFile)
		_, err = hackpadfs.ReadAtFile(f, make([]byte, 4), 1)
	case "readat:0":
		_, supported = f.(hackpadfs.ReaderAtFile)
		_, err = hackpadfs.ReadAtFile(f, []byte{}, 0)
	case "write":
		_, supported = f.(hackpadfs.ReadWriterFile)
		_, err = hackpadfs.WriteFile(f, []byte("zz"))
	case "write:0":
		_, supported = f.(hackpadfs.ReadWriterFile)
		_, err = hackpadfs.WriteFile(f, []byte{})
	case "writeat":
		_, supported = f.(hackpadfs.WriterAtFile)
		_, err = hackpadfs.WriteAtFile(f, []byte("zz"), 1)
	case "writeat:0":
		_, supported = f.(hackpadfs.WriterAtFile)
		_, err = hackpadfs.WriteAtFile(f, []byte{}, 0)
	case "seek":
		_, supported = f.(hackpadfs.SeekerFile)
		_, err = hackpadfs.SeekFile(f, 1, io.SeekStart)
	case "seek:cur":
		_, supported = f.(hackpadfs.SeekerFile)
		_, err = hackpadfs.SeekFile(f, 0, io.SeekCurrent)
	case "stat":
		_, err = f.Stat()
	case "readdir":
		_, supported = f.(hackpadfs.DirReaderFile)
		_, err = hackpadfs.ReadDirFile(f, 1)
	case "readdir:all":
		_, supported = f.(hackpadfs.DirReaderFile)
		_, err = hackpadfs.ReadDirFile(f, -1)
	case "truncate":
		_, supported = f.(hackpadfs.TruncaterFile)
		err = hackpadfs.TruncateFile(f, 3)
	case "truncate:same":
		_, supported = f.(hackpadfs.TruncaterFile)
		err = hackpadfs.TruncateFile(f, 11)
	case "truncate:neg":
		_, supported = f.(hackpadfs.TruncaterFile)
		err = hackpadfs.TruncateFile(f, -1)
	case "readat:neg":
		_, supported = f.(hackpadfs.ReaderAtFile)
		_, err = hackpadfs.ReadAtFile(f, make([]byte, 4), -1)
	case "writeat:neg":
		_, supported = f.(hackpadfs.WriterAtFile)
		_, err = hackpadfs.WriteAtFile(f, []byte("zz"), -1)
	case "seek:neg":
		_, supported = f.(hackpadfs.SeekerFile)
		_, err = hackpadfs.SeekFile(f, -1, io.SeekStart)
	case "seek:end":
		_, supported = f.(hackpadfs.SeekerFile)
		_, err = hackpadfs.SeekFile(f, 1, io.SeekEnd)
	case "chmod":
		_, supported = f.(hackpadfs.ChmoderFile)
		err = hackpadfs.ChmodFile(f, 0o600)
	case "sync":
		_, supported = f.(hackpadfs.SyncerFile)
		err = hackpadfs.SyncFile(f)
	case "close":
		err = f.Close()
	default:
		panic(method)
	}
	return
}

func osCall(f *os.File, method string) error {
	var err error
	switch method {
	case "read":
		_, err = f.Read(make([]byte, 4))
	case "read:0":
		_, err = f.Read([]byte{})
	case "readat":
		_, err = f.ReadAt(make([]byte, 4), 1)
	case "readat:0":
		_, err = f.ReadAt([]byte{}, 0)
	case "write":
		_, err = f.Write([]byte("zz"))
	case "write:0":
		_, err = f.Write([]byte{})
	case "writeat":
		_, err = f.WriteAt([]byte("zz"), 1)
	case "writeat:0":
		_, err = f.WriteAt([]byte{}, 0)
	case "seek":
		_, err = f.Seek(1, io.SeekStart)
	case "seek:cur":
		_, err = f.Seek(0, io.SeekCurrent)
	case "stat":
		_, err = f.Stat()
	case "readdir":
		_, err = f.ReadDir(1)
	case "readdir:all":
		_, err = f.ReadDir(-1)
	case "truncate":
		err = f.Truncate(3)
	case "truncate:same":
		err = f.Truncate(11)
	case "truncate:neg":
		err = f.Truncate(-1)
	case "readat:neg":
		_, err = f.ReadAt(make([]byte, 4), -1)
	case "writeat:neg":
		_, err = f.WriteAt([]byte("zz"), -1)
	case "seek:neg":
		_, err = f.Seek(-1, io.SeekStart)
	case "seek:end":
		_, err = f.Seek(1, io.SeekEnd)
	case "chmod":
		err = f.Chmod(0o600)
	case "sync":
		err = f.Sync()
	case "close":
		err = f.Close()
	}
	return err
}

// ------------------------------------------------------------------ leg 1: every method after Close

type ClosedCase struct {
	Kind    string   `json:"kind"`
	Handle  string   `json:"handle"`
	Before  []string `json:"before"` // methods called before Close (handle in use)
	Methods []string `json:"methods"`
}

func checkClosed(c ClosedCase) (string, string) {
	b := build(c.Kind)
	defer b.close()
	base := fmt.Sprintf("C17/%s closed[%s]", c.Kind, c.Handle)
	w := world.New()
	defer w.Close()
	must(os.WriteFile(w.Root+"/f", []byte("hello world"), 0o644))
	must(os.MkdirAll(w.Root+"/d", 0o755))
	must(os.WriteFile(w.Root+"/d/x", []byte("x"), 0o644))
	f, err := openKind(b.fs, c.Handle)
	if err != nil {
		if b.readOnly && (c.Handle == "wo" || c.Handle == "rw") {
			return "", "" // read-only file system: no such handle
		}
		return base + ":open", err.Error()
	}
	ref := osOpenKind(w.Root, c.Handle)
	for _, m := range c.Before {
		if m == "close" {
			continue
		}
		pan, hung := vf.Guard(func() { _, _ = call(f, m) })
		_ = osCall(ref, m)
		if pan != "" || hung {
			return base + ":before-close-crash:" + m, fmt.Sprintf("%s on the open handle: %s hung=%v", m, pan, hung)
		}
	}
	var cerr error
	pan, hung := vf.Guard(func() { cerr = f.Close() })
	if pan != "" || hung {
		return base + ":close-crash", fmt.Sprintf("%s hung=%v", pan, hung)
	}
	if cerr != nil {
		return base + ":close-error", cerr.Error()
	}
	must(ref.Close())
	for _, m := range c.Methods {
		var err error
		var supported bool
		pan, hung := vf.Guard(func() { err, supported = call(f, m) })
		if pan != "" || hung {
			return base + ":" + m + ":crash", fmt.Sprintf("%s after Close: %s hung=%v", m, pan, hung)
		}
		oerr := osCall(ref, m)
		if err == nil && oerr == nil {
			continue // a degenerate call os.File answers without looking at the handle either
		}
		if err == nil {
			return base + ":" + m + ":succeeds", fmt.Sprintf("%s after Close returned nil (os.File: %v)", m, oerr)
		}
		_ = supported // methods the handle never had answer ErrClosed after Close as well (the helpers look at the handle first)
		if errors.Is(oerr, os.ErrClosed) && !errors.Is(err, hackpadfs.ErrClosed) {
			return base + ":" + m + ":not-errclosed", fmt.Sprintf("%s after Close: %v does not match ErrClosed (os.File: %v)", m, err, oerr)
		}
	}
	return "", ""
}

func TestClosed(t *testing.T) {
	for _, kind := range kinds {
		kind := kind
		t.Run(kind, func(t *testing.T) {
			vf.Check(t, "closed-"+kind, func(rt *rapid.T, rec *vf.Rec) {
				c := ClosedCase{Kind: kind, Handle: rapid.SampledFrom([]string{"ro", "wo", "rw", "dir"}).Draw(rt, "handle")}
				if b := (kind == "cache" || kind == "tar"); b && (c.Handle == "wo" || c.Handle == "rw") {
					c.Handle = rapid.SampledFrom([]string{"ro", "dir"}).Draw(rt, "rohandle")
				}
				c.Before = rapid.SliceOfN(rapid.SampledFrom(methods[:10]), 0, 3).Draw(rt, "before")
				c.Methods = rapid.Permutation(append(append([]string{}, methods...), variants...)).Draw(rt, "order")
				rec.Step(c)
				rec.NonTrivial()
				rec.Class("handle:" + c.Handle)
				if sig, msg := checkClosed(c); sig != "" {
					rec.Failf(rt, sig, "%s", msg)
				}
			})
		})
	}
}

// ------------------------------------------------------------------ leg 2: sibling handles are independent

type SibStep struct {
	K    string `json:"k"` // read, write, seek, close, reopen
	N    int    `json:"n"`
	Data string `json:"data,omitempty"`
}

type SibCase struct {
	Kind  string    `json:"kind"`
	Steps []SibStep `json:"steps"`
}

func checkSiblings(c SibCase) (string, string) {
	b := build(c.Kind)
	defer b.close()
	base := fmt.Sprintf("C17/%s siblings", c.Kind)
	w := world.New()
	defer w.Close()
	must(os.WriteFile(w.Root+"/f", []byte("hello world"), 0o644))
	flag := os.O_RDWR
	if b.readOnly {
		flag = os.O_RDONLY
	}
	open := func() (hackpadfs.File, *os.File) {
		var f hackpadfs.File
		var err error
		if b.readOnly {
			f, err = b.fs.Open("f")
		} else {
			f, err = hackpadfs.OpenFile(b.fs, "f", flag, 0)
		}
		must(err)
		r, err := os.OpenFile(w.Root+"/f", flag, 0)
		must(err)
		return f, r
	}
	h1, r1 := open()
	h2, r2 := open()
	defer func() { _ = r1.Close(); _ = r2.Close() }()
	// give the observed handle a distinctive position
	if _, err := hackpadfs.SeekFile(h2, 3, io.SeekStart); err != nil {
		return "", "" // no seeking on this subject: nothing to observe
	}
	_, _ = r2.Seek(3, io.SeekStart)
	h1open := true
	for i, s := range c.Steps {
		var pan string
		var hung bool
		switch s.K {
		case "read":
			if h1open {
				pan, hung = vf.Guard(func() { _, _ = h1.Read(make([]byte, s.N)) })
				_, _ = r1.Read(make([]byte, s.N))
			}
		case "write":
			if h1open && !b.readOnly {
				pan, hung = vf.Guard(func() { _, _ = hackpadfs.WriteFile(h1, []byte(s.Data)) })
				_, _ = r1.Write([]byte(s.Data))
			}
		case "seek":
			if h1open {
				pan, hung = vf.Guard(func() { _, _ = hackpadfs.SeekFile(h1, int64(s.N), io.SeekStart) })
				_, _ = r1.Seek(int64(s.N), io.SeekStart)
			}
		case "close":
			if h1open {
				pan, hung = vf.Guard(func() { _ = h1.Close() })
				_ = r1.Close()
				h1open = false
			}
		case "reopen":
			if !h1open {
				h1, r1 = open()
				h1open = true
			}
		}
		if pan != "" || hung {
			return base + ":crash", fmt.Sprintf("step %d %v: %s hung=%v", i, s, pan, hung)
		}
		// the sibling keeps its position and validity
		var pos int64
		var perr, serr error
		pan, hung = vf.Guard(func() {
			pos, perr = hackpadfs.SeekFile(h2, 0, io.SeekCurrent)
			_, serr = h2.Stat()
		})
		if pan != "" || hung {
			return base + ":sibling-crash", fmt.Sprintf("after step %d %v: %s hung=%v", i, s, pan, hung)
		}
		want, _ := r2.Seek(0, io.SeekCurrent)
		if perr != nil || serr != nil || pos != want {
			return base + ":sibling-affected:" + s.K, fmt.Sprintf("after step %d %v on handle 1: handle 2 offset=(%d,%v) stat err=%v, want offset %d and a valid handle", i, s, pos, perr, serr, want)
		}
	}
	if c.Kind == "kvplain" {
		// over a plain Store every handle works on its own snapshot copy by design (C02 runs that subject
		// single-handle); position and validity were compared above, contents are not comparable.
		return "", ""
	}
	// the sibling still reads the file's bytes from its own position
	got := make([]byte, 4)
	exp := make([]byte, 4)
	gn, _ := io.ReadFull(h2, got)
	en, _ := io.ReadFull(r2, exp)
	if gn != en || !bytes.Equal(got[:gn], exp[:en]) {
		return base + ":sibling-read", fmt.Sprintf("handle 2 reads %q, os twin %q", got[:gn], exp[:en])
	}
	return "", ""
}

func TestSiblings(t *testing.T) {
	vf.Check(t, "siblings", func(rt *rapid.T, rec *vf.Rec) {
		c := SibCase{Kind: rapid.SampledFrom(kinds).Draw(rt, "kind")}
		n := rapid.IntRange(1, 8).Draw(rt, "n")
		closes := 0
		for i := 0; i < n; i++ {
			s := SibStep{K: rapid.SampledFrom([]string{"read", "write", "seek", "close", "reopen"}).Draw(rt, "k"), N: rapid.IntRange(0, 14).Draw(rt, "arg")}
			if s.K == "write" {
				s.Data = rapid.StringMatching("[A-Z]{0,6}").Draw(rt, "data")
			}
			if s.K == "close" {
				closes++
			}
			c.Steps = append(c.Steps, s)
		}
		rec.Step(c)
		if closes > 0 {
			rec.NonTrivial()
		}
		if sig, msg := checkSiblings(c); sig != "" {
			rec.Failf(rt, sig, "%s", msg)
		}
	})
}

// ------------------------------------------------------------------ leg 3: no resurrection through old handles

type ResCase struct {
	Kind   string   `json:"kind"`
	Handle string   `json:"handle"` // wo, rw
	Unlink string   `json:"unlink"` // remove, rename, removeall
	After  []string `json:"after"`  // write, writeat, truncate, chmod, close
	// Nested: the file is p/f instead of f; Parent says what happens to the directory p after the unlink:
	// "" (stays), "file" (removed and replaced by a regular file), "away" (renamed away), "away+file", "dir" (removed and re-created)
	Nested bool   `json:"nested,omitempty"`
	Parent string `json:"parent,omitempty"`
}

func checkResurrect(c ResCase) (string, string) {
	b := build(c.Kind)
	defer b.close()
	base := fmt.Sprintf("C17/%s resurrect[%s]", c.Kind, c.Unlink)
	name := "f"
	var f hackpadfs.File
	var err error
	if c.Nested {
		base = fmt.Sprintf("C17/%s resurrect[%s,nested,%s]", c.Kind, c.Unlink, c.Parent)
		name = "p/f"
		must(hackpadfs.Mkdir(b.fs, "p", 0o755))
		must(hackpadfs.WriteFullFile(b.fs, name, []byte("hello world"), 0o644))
		flag := hackpadfs.FlagWriteOnly
		if c.Handle == "rw" {
			flag = hackpadfs.FlagReadWrite
		}
		f, err = hackpadfs.OpenFile(b.fs, name, flag, 0)
	} else {
		f, err = openKind(b.fs, c.Handle)
	}
	if err != nil {
		return base + ":open", err.Error()
	}
	switch c.Unlink {
	case "remove":
		err = hackpadfs.Remove(b.fs, name)
	case "removeall":
		err = hackpadfs.RemoveAll(b.fs, name)
	case "rename":
		err = hackpadfs.Rename(b.fs, name, "g")
	}
	if err != nil {
		if errors.Is(err, hackpadfs.ErrNotImplemented) {
			return "", ""
		}
		return base + ":unlink-failed", err.Error()
	}
	if c.Nested {
		var perr error
		switch c.Parent {
		case "file":
			perr = hackpadfs.Remove(b.fs, "p")
			if perr == nil {
				perr = hackpadfs.WriteFullFile(b.fs, "p", []byte("now a file"), 0o644)
			}
		case "away":
			perr = hackpadfs.Rename(b.fs, "p", "q")
		case "away+file":
			perr = hackpadfs.Rename(b.fs, "p", "q")
			if perr == nil {
				perr = hackpadfs.WriteFullFile(b.fs, "p", []byte("now a file"), 0o644)
			}
		case "dir":
			perr = hackpadfs.Remove(b.fs, "p")
			if perr == nil {
				perr = hackpadfs.Mkdir(b.fs, "p", 0o700)
			}
		}
		if perr != nil {
			if errors.Is(perr, hackpadfs.ErrNotImplemented) {
				return "", ""
			}
			return base + ":parent-step-failed", perr.Error()
		}
	}
	for _, m := range c.After {
		pan, hung := vf.Guard(func() { _, _ = call(f, m) })
		if pan != "" || hung {
			return base + ":crash:" + m, fmt.Sprintf("%s through the old handle: %s hung=%v", m, pan, hung)
		}
		if _, err := hackpadfs.Stat(b.fs, name); err == nil || !(errors.Is(err, hackpadfs.ErrNotExist) || (c.Nested && errors.Is(err, hackpadfs.ErrNotDir))) {
			return base + ":resurrected:" + m, fmt.Sprintf("after %s(%q) and %s through a handle opened earlier, Stat(%q) = %v (want not-exist)", c.Unlink, name, m, name, err)
		}
		if fh, err := b.fs.Open(name); err == nil {
			_ = fh.Close()
			return base + ":resurrected-open:" + m, fmt.Sprintf("after %s(%q) and %s through a handle opened earlier, Open(%q) succeeds", c.Unlink, name, m, name)
		}
		listDir := "."
		if c.Nested {
			listDir = "p"
		}
		des, err := hackpadfs.ReadDir(b.fs, listDir)
		if err == nil && !(c.Nested && (c.Parent == "file" || c.Parent == "away" || c.Parent == "away+file")) {
			for _, de := range des {
				if de.Name() == "f" {
					return base + ":relisted:" + m, fmt.Sprintf("after %s(%q) and %s through the old handle %q lists \"f\" again", c.Unlink, name, m, listDir)
				}
			}
		}
	}
	return "", ""
}

func TestResurrect(t *testing.T) {
	vf.Check(t, "resurrect", func(rt *rapid.T, rec *vf.Rec) {
		c := ResCase{Kind: rapid.SampledFrom([]string{"mem", "kvplain", "mount", "submem", "osfs"}).Draw(rt, "kind")}
		c.Handle = rapid.SampledFrom([]string{"wo", "rw"}).Draw(rt, "handle")
		c.Unlink = rapid.SampledFrom([]string{"remove", "rename", "removeall"}).Draw(rt, "unlink")
		c.After = rapid.SliceOfN(rapid.SampledFrom([]string{"write", "writeat", "truncate", "chmod", "sync", "close"}), 1, 4).Draw(rt, "after")
		if rapid.Bool().Draw(rt, "nested") {
			c.Nested = true
			c.Parent = rapid.SampledFrom([]string{"", "file", "away", "away+file", "dir"}).Draw(rt, "parent")
			if c.Unlink == "rename" && c.Kind == "submem" {
				// fine: the generic Sub view supports Rename
			}
		}
		if k := knownSig(c); k != "" {
			rec.Excluded(k)
			rt.Skip("known finding")
		}
		rec.Step(c)
		rec.NonTrivial()
		if sig, msg := checkResurrect(c); sig != "" {
			rec.Failf(rt, sig, "%s", msg)
		}
	})
}

// ------------------------------------------------------------------ leg 4: the old handle is a DIRECTORY handle

// DirResCase: a directory f is opened, then removed / renamed away, then the name is left free or taken by a regular file
// or by a new directory; the calls a directory handle has (chmod, sync, stat, readdir, close) then go through the old
// handle. The removed directory does not come back: the name stays free, or stays what it was made into.
type DirResCase struct {
	Kind     string   `json:"kind"`
	Unlink   string   `json:"unlink"`   // remove, rename, removeall
	Recreate string   `json:"recreate"` // "", file, dir
	After    []string `json:"after"`
}

func checkDirResurrect(c DirResCase) (string, string) {
	b := build(c.Kind)
	defer b.close()
	base := fmt.Sprintf("C17/%s resurrect-dir[%s,%s]", c.Kind, c.Unlink, c.Recreate)
	must(hackpadfs.Mkdir(b.fs, "dd", 0o755))
	if c.Unlink == "removeall" {
		must(hackpadfs.WriteFullFile(b.fs, "dd/x", []byte("x"), 0o644))
	}
	fh, err := b.fs.Open("dd")
	if err != nil {
		return base + ":open", err.Error()
	}
	defer func() { _ = fh.Close() }()
	switch c.Unlink {
	case "remove":
		err = hackpadfs.Remove(b.fs, "dd")
	case "removeall":
		err = hackpadfs.RemoveAll(b.fs, "dd")
	default:
		err = hackpadfs.Rename(b.fs, "dd", "g")
	}
	if err == nil {
		switch c.Recreate {
		case "file":
			err = hackpadfs.WriteFullFile(b.fs, "dd", []byte("new contents"), 0o644)
		case "dir":
			if err = hackpadfs.Mkdir(b.fs, "dd", 0o700); err == nil {
				err = hackpadfs.WriteFullFile(b.fs, "dd/y", []byte("y"), 0o644)
			}
		}
	}
	if err != nil {
		if errors.Is(err, hackpadfs.ErrNotImplemented) {
			return "", ""
		}
		return base + ":setup-step-failed", err.Error()
	}
	for _, m := range c.After {
		pan, hung := vf.Guard(func() { _, _ = call(fh, m) })
		if pan != "" || hung {
			return base + ":crash:" + m, fmt.Sprintf("%s through the old directory handle: %s hung=%v", m, pan, hung)
		}
		fi, serr := hackpadfs.Stat(b.fs, "dd")
		switch c.Recreate {
		case "":
			if serr == nil || !errors.Is(serr, hackpadfs.ErrNotExist) {
				return base + ":resurrected:" + m, fmt.Sprintf("after %s(\"dd\") and %s through a directory handle opened earlier, Stat(\"dd\") = %v (want not-exist)", c.Unlink, m, serr)
			}
		case "file":
			data, rerr := hackpadfs.ReadFile(b.fs, "dd")
			if serr != nil || fi.IsDir() || rerr != nil || string(data) != "new contents" {
				return base + ":new-file-clobbered:" + m, fmt.Sprintf("after %s(\"dd\"), creating a regular file \"dd\", and %s through the directory handle opened earlier: Stat = %v (dir=%v), contents %q %v -- the removed directory took the name back", c.Unlink, m, serr, serr == nil && fi.IsDir(), data, rerr)
			}
		case "dir":
			des, lerr := hackpadfs.ReadDir(b.fs, "dd")
			if serr != nil || !fi.IsDir() || lerr != nil || len(des) != 1 || des[0].Name() != "y" {
				return base + ":new-dir-clobbered:" + m, fmt.Sprintf("after %s(\"dd\"), creating a new directory \"dd\" holding y, and %s through the old handle: Stat = %v, listing %v %v", c.Unlink, m, serr, des, lerr)
			}
		}
	}
	return "", ""
}

func TestResurrectDir(t *testing.T) {
	vf.Check(t, "resurrectdir", func(rt *rapid.T, rec *vf.Rec) {
		c := DirResCase{Kind: rapid.SampledFrom([]string{"mem", "kvplain", "mount", "submem", "osfs"}).Draw(rt, "kind")}
		c.Unlink = rapid.SampledFrom([]string{"remove", "rename", "removeall"}).Draw(rt, "unlink")
		c.Recreate = rapid.SampledFrom([]string{"", "file", "file", "dir"}).Draw(rt, "recreate")
		c.After = rapid.SliceOfN(rapid.SampledFrom([]string{"chmod", "chmod", "sync", "stat", "readdir", "readdir:all", "close"}), 1, 4).Draw(rt, "after")
		rec.Step(c)
		rec.NonTrivial()
		if sig, msg := checkDirResurrect(c); sig != "" {
			rec.Failf(rt, sig, "%s", msg)
		}
	})
}

func TestReplayResurrectDir(t *testing.T) {
	vf.Replay(t, "resurrectdir", func(steps []json.RawMessage) (string, string) {
		for _, raw := range steps {
			var c DirResCase
			if err := json.Unmarshal(raw, &c); err != nil {
				return "bad-replay", err.Error()
			}
			if sig, msg := checkDirResurrect(c); sig != "" {
				return sig, msg
			}
		}
		return "", ""
	})
}

// ------------------------------------------------------------------ replay

func TestReplayAll(t *testing.T) {
	for _, kind := range kinds {
		kind := kind
		t.Run("closed-"+kind, func(t *testing.T) {
			vf.Replay(t, "closed-"+kind, func(steps []json.RawMessage) (string, string) {
				for _, raw := range steps {
					var c ClosedCase
					if err := json.Unmarshal(raw, &c); err != nil {
						return "bad-replay", err.Error()
					}
					if sig, msg := checkClosed(c); sig != "" {
						return sig, msg
					}
				}
				return "", ""
			})
		})
	}
	t.Run("siblings", func(t *testing.T) {
		vf.Replay(t, "siblings", func(steps []json.RawMessage) (string, string) {
			for _, raw := range steps {
				var c SibCase
				if err := json.Unmarshal(raw, &c); err != nil {
					return "bad-replay", err.Error()
				}
				if sig, msg := checkSiblings(c); sig != "" {
					return sig, msg
				}
			}
			return "", ""
		})
	})
	t.Run("resurrect", func(t *testing.T) {
		vf.Replay(t, "resurrect", func(steps []json.RawMessage) (string, string) {
			for _, raw := range steps {
				var c ResCase
				if err := json.Unmarshal(raw, &c); err != nil {
					return "bad-replay", err.Error()
				}
				if sig, msg := checkResurrect(c); sig != "" {
					return sig, msg
				}
			}
			return "", ""
		})
	})
}

func knownSig(c ResCase) string { return "" }
func registerProbes()           {}
