package c13

import (
	"bytes"
	"context"
	"encoding/json"
	"fmt"
	"io"
	"sync"
	"testing"
	"time"

	htar "github.com/hack-pad/hackpadfs/tar"
	"pgregory.net/rapid"

	"verifharness/internal/subj"
	"verifharness/internal/vf"
)

// ------------------------------------------------------------------ hooked leg: races between tar's own goroutines

// checkHooked parks tar's goroutines at the verifPoint markers (build tag verif): the reader goroutine right
// before it stores the unpack error, and background writers right before they announce a file. While they are
// parked every regular entry is opened; an Open that returns successfully must deliver the complete bytes.
func checkHooked(c Case) (string, string) {
	var sig, msg string
	pan, hung := vf.GuardN(6, func() { sig, msg = checkHookedInner(c) })
	htar.SetVerifPointForVerif(nil)
	if hung {
		return "C13 harness-hang", "hooked case did not terminate"
	}
	if pan != "" {
		return "C13 panic", pan
	}
	return sig, msg
}

func checkHookedInner(c Case) (string, string) {
	archive := buildArchive(c.Entries)
	ctl := newControl()
	parkAt := c.Hold // reused field: which verifPoint parks ("read:before-store-err" or "writeFile:before-emit")
	var once sync.Once
	htar.SetVerifPointForVerif(func(point string) {
		if point == parkAt {
			first := false
			once.Do(func() { first = true })
			if first {
				ctl.pause(point)
			}
		}
	})
	passthrough := newControl()
	passthrough.releaseAll()
	ctx, cancel := context.WithCancel(context.Background())
	defer cancel()
	rd := &blockReader{data: archive, cut: c.Cut, fault: c.Fault, ctl: passthrough, cancel: cancel}
	d := &dest{inner: subj.NewMem(), ctl: passthrough}
	tfs, err := htar.NewReaderFS(ctx, rd, htar.ReaderFSOptions{UnarchiveFS: d})
	if err != nil {
		return "C13 constructor", err.Error()
	}
	parked := false
	select {
	case <-ctl.paused:
		parked = true
	case <-tfs.Done():
	case <-time.After(vf.WatchdogDur()):
		ctl.releaseAll()
		return "C13 stream-stuck", "hooked: neither the verifPoint nor the end of the stream was reached"
	}
	type res struct {
		name string
		data []byte
		err  error
	}
	var mu sync.Mutex
	var results []res
	var wg sync.WaitGroup
	for _, e := range c.Entries {
		if e.Dir {
			continue
		}
		e := e
		wg.Add(1)
		go func() {
			defer wg.Done()
			f, err := tfs.Open(e.Name)
			r := res{name: e.Name, err: err}
			if err == nil {
				r.data, r.err = io.ReadAll(f)
				_ = f.Close()
			}
			mu.Lock()
			results = append(results, r)
			mu.Unlock()
		}()
	}
	if parked {
		time.Sleep(time.Duration(200+c.Settle) * time.Microsecond)
	}
	ctl.releaseAll()
	select {
	case <-tfs.Done():
	case <-time.After(vf.WatchdogDur()):
		return "C13 done-never-closed:" + c.Fault, "hooked: Done() did not close"
	}
	waited := make(chan struct{})
	go func() { wg.Wait(); close(waited) }()
	select {
	case <-waited:
	case <-time.After(vf.WatchdogDur()):
		return "C13 open-never-returns:" + c.Fault, "hooked: an Open did not return after the stream ended"
	}
	for _, r := range results {
		if r.err != nil {
			continue
		}
		var size int
		for _, e := range c.Entries {
			if e.Name == r.name {
				size = e.Size
			}
		}
		if !bytes.Equal(r.data, content(r.name, size)) {
			return "C13 partial-bytes:" + c.Fault + "@" + parkAt, fmt.Sprintf("with tar's goroutine parked at %q (fault=%s cut=%d): Open(%q) succeeded with %d of %d bytes", parkAt, c.Fault, c.Cut, r.name, len(r.data), size)
		}
	}
	return "", ""
}

func TestHooked(t *testing.T) {
	vf.Check(t, "hooked", func(rt *rapid.T, rec *vf.Rec) {
		es := genEntries(rt, false)
		c := Case{Entries: es, Fault: rapid.SampledFrom([]string{"truncate", "truncate", "error", "cancel", "none"}).Draw(rt, "fault"), Settle: rapid.IntRange(0, 300).Draw(rt, "settle")}
		c.Cut = rapid.IntRange(0, blocks(es)).Draw(rt, "cut")
		c.Hold = rapid.SampledFrom([]string{"read:before-store-err", "read:before-store-err", "writeFile:before-emit"}).Draw(rt, "point")
		rec.Step(c)
		rec.NonTrivial()
		rec.Class("point:" + c.Hold)
		if sig, msg := checkHooked(c); sig != "" {
			rec.Failf(rt, sig, "%s", msg)
		}
	})
}

// ------------------------------------------------------------------ pubsub: Wait(k) returns iff k was emitted or the context is done

type PSStep struct {
	K   string `json:"k"` // wait emit cancel
	Key string `json:"key,omitempty"`
}

func checkPubsub(steps []PSStep) (string, string) {
	ctx, cancel := context.WithCancel(context.Background())
	defer cancel()
	ps := htar.NewPubsubForVerif(ctx)
	type waiter struct {
		key  string
		done chan struct{}
	}
	var waiters []*waiter
	emitted := map[string]bool{}
	cancelled := false
	isDone := func(w *waiter) bool {
		select {
		case <-w.done:
			return true
		default:
			return false
		}
	}
	for i, s := range steps {
		switch s.K {
		case "wait":
			w := &waiter{key: s.Key, done: make(chan struct{})}
			waiters = append(waiters, w)
			go func() { ps.Wait(w.key); close(w.done) }()
		case "emit":
			done := make(chan struct{})
			go func() { ps.Emit(s.Key); close(done) }()
			select {
			case <-done:
			case <-time.After(vf.WatchdogDur()):
				return "C13 pubsub:emit-hangs", fmt.Sprintf("step %d Emit(%q) did not return", i, s.Key)
			}
			emitted[s.Key] = true
		case "cancel":
			cancel()
			cancelled = true
		}
		// every waiter that must have been released returns; nobody else does
		for wi, w := range waiters {
			should := emitted[w.key] || cancelled
			if should {
				select {
				case <-w.done:
				case <-time.After(vf.WatchdogDur()):
					return "C13 pubsub:lost-wakeup", fmt.Sprintf("after step %d %+v: waiter %d on %q is still blocked (emitted=%v cancelled=%v)", i, s, wi, w.key, emitted[w.key], cancelled)
				}
			}
		}
		time.Sleep(150 * time.Microsecond)
		for wi, w := range waiters {
			if !(emitted[w.key] || cancelled) && isDone(w) {
				return "C13 pubsub:spurious-wakeup", fmt.Sprintf("after step %d %+v: waiter %d on %q returned although %q was never emitted", i, s, wi, w.key, w.key)
			}
		}
	}
	cancel()
	return "", ""
}

// pubsubBurst: waiters and an emitter on the same key start together (barrier); every waiter must return.
// Repeated, this is the free-running search for a lost wake-up between Wait's check and its subscription.
func pubsubBurst(waiters, rounds int) (string, string) {
	for r := 0; r < rounds; r++ {
		ctx, cancel := context.WithCancel(context.Background())
		ps := htar.NewPubsubForVerif(ctx)
		start := make(chan struct{})
		var wg sync.WaitGroup
		for i := 0; i < waiters; i++ {
			wg.Add(1)
			go func() { defer wg.Done(); <-start; ps.Wait("k") }()
		}
		wg.Add(1)
		go func() { defer wg.Done(); <-start; ps.Emit("k") }()
		close(start)
		done := make(chan struct{})
		go func() { wg.Wait(); close(done) }()
		select {
		case <-done:
		case <-time.After(vf.WatchdogDur()):
			cancel()
			return "C13 pubsub:lost-wakeup-burst", fmt.Sprintf("round %d: a Wait(\"k\") racing Emit(\"k\") never returned (%d waiters)", r, waiters)
		}
		cancel()
	}
	return "", ""
}

func TestPubsubBurst(t *testing.T) {
	vf.Check(t, "pubsubburst", func(rt *rapid.T, rec *vf.Rec) {
		w := rapid.IntRange(1, 24).Draw(rt, "waiters")
		rec.Step(map[string]int{"waiters": w, "rounds": 300})
		rec.NonTrivial()
		if sig, msg := pubsubBurst(w, 300); sig != "" {
			rec.Failf(rt, sig, "%s", msg)
		}
	})
}

func TestPubsub(t *testing.T) {
	vf.Check(t, "pubsub", func(rt *rapid.T, rec *vf.Rec) {
		n := rapid.IntRange(1, 12).Draw(rt, "n")
		var steps []PSStep
		waits := 0
		for i := 0; i < n; i++ {
			s := PSStep{K: rapid.SampledFrom([]string{"wait", "wait", "wait", "emit", "emit", "cancel"}).Draw(rt, "k")}
			if s.K == "cancel" && rapid.IntRange(0, 2).Draw(rt, "reallycancel") != 0 {
				s.K = "emit"
			}
			if s.K != "cancel" {
				s.Key = rapid.SampledFrom([]string{"a", "b", "c"}).Draw(rt, "key")
			}
			if s.K == "wait" {
				waits++
			}
			steps = append(steps, s)
			rec.Step(s)
		}
		if waits >= 2 {
			rec.NonTrivial()
		}
		if sig, msg := checkPubsub(steps); sig != "" {
			rec.Failf(rt, sig, "%s", msg)
		}
	})
}

// ------------------------------------------------------------------ bufferPool: bounded, right-sized, Wait returns once a buffer is Done

type BPStep struct {
	K string `json:"k"` // acquire release
	I int    `json:"i,omitempty"`
}

type BPCase struct {
	Size  int      `json:"size"`
	Max   int      `json:"max"`
	Steps []BPStep `json:"steps"`
}

func checkBufferPool(c BPCase) (string, string) {
	pool := htar.NewBufferPoolForVerif(uint64(c.Size), uint64(c.Max))
	maxBuf := c.Max
	if maxBuf == 0 {
		maxBuf = 1
	}
	var mu sync.Mutex
	var held []*htar.Buffer
	requested, granted := 0, 0
	grantedCh := make(chan *htar.Buffer, 64)
	collect := func(wait time.Duration) {
		deadline := time.After(wait)
		for {
			select {
			case b := <-grantedCh:
				mu.Lock()
				held = append(held, b)
				granted++
				mu.Unlock()
			case <-deadline:
				return
			}
		}
	}
	for i, s := range c.Steps {
		switch s.K {
		case "acquire":
			requested++
			go func() { grantedCh <- pool.Wait() }()
		case "release":
			mu.Lock()
			if len(held) > 0 {
				idx := s.I % len(held)
				b := held[idx]
				held = append(held[:idx], held[idx+1:]...)
				mu.Unlock()
				b.Done()
			} else {
				mu.Unlock()
			}
		}
		collect(300 * time.Microsecond)
		mu.Lock()
		outstanding := len(held)
		for _, b := range held {
			if len(b.Data) != c.Size {
				mu.Unlock()
				return "C13 bufferpool:size", fmt.Sprintf("buffer of %d bytes from a pool configured with %d", len(b.Data), c.Size)
			}
		}
		mu.Unlock()
		if outstanding > maxBuf {
			return "C13 bufferpool:bound", fmt.Sprintf("after step %d: %d buffers outstanding, pool maximum %d", i, outstanding, maxBuf)
		}
		// whoever can be served must be served
		mu.Lock()
		pending := requested - granted
		canServe := maxBuf - outstanding
		mu.Unlock()
		if pending > 0 && canServe > 0 {
			collect(20 * time.Millisecond)
			mu.Lock()
			stillPending := requested - granted
			out2 := len(held)
			mu.Unlock()
			if stillPending > 0 && out2 < maxBuf {
				collect(vf.WatchdogDur() / 4)
				mu.Lock()
				stillPending = requested - granted
				out2 = len(held)
				mu.Unlock()
				if stillPending > 0 && out2 < maxBuf {
					return "C13 bufferpool:starved", fmt.Sprintf("after step %d: %d requests pending although only %d of %d buffers are outstanding", i, stillPending, out2, maxBuf)
				}
			}
		}
	}
	// drain: release everything so that blocked acquirers finish
	for guard := 0; guard < 200; guard++ {
		mu.Lock()
		if granted == requested && len(held) == 0 {
			mu.Unlock()
			break
		}
		var b *htar.Buffer
		if len(held) > 0 {
			b = held[0]
			held = held[1:]
		}
		mu.Unlock()
		if b != nil {
			b.Done()
		}
		collect(300 * time.Microsecond)
	}
	return "", ""
}

func TestBufferPool(t *testing.T) {
	vf.Check(t, "bufferpool", func(rt *rapid.T, rec *vf.Rec) {
		c := BPCase{Size: rapid.SampledFrom([]int{1, 16, 1024}).Draw(rt, "size"), Max: rapid.IntRange(0, 4).Draw(rt, "max")}
		n := rapid.IntRange(1, 14).Draw(rt, "n")
		acq := 0
		for i := 0; i < n; i++ {
			s := BPStep{K: rapid.SampledFrom([]string{"acquire", "acquire", "release"}).Draw(rt, "k"), I: rapid.IntRange(0, 3).Draw(rt, "i")}
			if s.K == "acquire" {
				acq++
			}
			c.Steps = append(c.Steps, s)
		}
		rec.Step(c)
		if acq > c.Max {
			rec.NonTrivial()
		}
		if sig, msg := checkBufferPool(c); sig != "" {
			rec.Failf(rt, sig, "%s", msg)
		}
	})
}

func TestReplayComponents(t *testing.T) {
	t.Run("pubsub", func(t *testing.T) {
		vf.Replay(t, "pubsub", func(steps []json.RawMessage) (string, string) {
			var ss []PSStep
			for _, raw := range steps {
				var s PSStep
				if err := json.Unmarshal(raw, &s); err == nil && s.K != "" {
					ss = append(ss, s)
				}
			}
			for rep := 0; rep < 20; rep++ {
				if sig, msg := checkPubsub(ss); sig != "" {
					return sig, msg
				}
			}
			return "", ""
		})
	})
	t.Run("pubsubburst", func(t *testing.T) {
		vf.Replay(t, "pubsubburst", func(steps []json.RawMessage) (string, string) {
			for _, raw := range steps {
				var s map[string]int
				if err := json.Unmarshal(raw, &s); err == nil && s["waiters"] > 0 {
					return pubsubBurst(s["waiters"], 20000)
				}
			}
			return "", ""
		})
	})
	t.Run("bufferpool", func(t *testing.T) {
		vf.Replay(t, "bufferpool", func(steps []json.RawMessage) (string, string) {
			for _, raw := range steps {
				var c BPCase
				if err := json.Unmarshal(raw, &c); err == nil && c.Size > 0 {
					for rep := 0; rep < 20; rep++ {
						if sig, msg := checkBufferPool(c); sig != "" {
							return sig, msg
						}
					}
				}
			}
			return "", ""
		})
	})
}
