// C13: tar entries become visible atomically and every Open eventually returns.
//
//go:debug tarinsecurepath=1
package c13

import (
	"archive/tar"
	"bytes"
	"context"
	"encoding/json"
	"errors"
	"fmt"
	"io"
	"sync"
	"testing"
	"time"

	"github.com/hack-pad/hackpadfs"
	htar "github.com/hack-pad/hackpadfs/tar"
	"pgregory.net/rapid"

	"verifharness/internal/subj"
	"verifharness/internal/vf"
)

func TestMain(m *testing.M) { vf.Main(m) }

func must(err error) {
	if err != nil {
		panic(err)
	}
}

var errReader = errors.New("verif: injected archive reader failure")
var errDest = errors.New("verif: injected destination failure")

type Entry struct {
	Name string `json:"name"`
	Dir  bool   `json:"dir"`
	Size int    `json:"size"`
}

func content(name string, size int) []byte {
	b := make([]byte, size)
	for i := range b {
		b[i] = byte('A' + (i*5+len(name)*7+i/700)%26)
	}
	return b
}

func buildArchive(entries []Entry) []byte {
	var buf bytes.Buffer
	tw := tar.NewWriter(&buf)
	for _, e := range entries {
		if e.Dir {
			must(tw.WriteHeader(&tar.Header{Name: e.Name + "/", Typeflag: tar.TypeDir, Mode: 0o755}))
			continue
		}
		must(tw.WriteHeader(&tar.Header{Name: e.Name, Typeflag: tar.TypeReg, Mode: 0o644, Size: int64(e.Size)}))
		_, err := tw.Write(content(e.Name, e.Size))
		must(err)
	}
	must(tw.Close())
	return buf.Bytes()
}

// ------------------------------------------------------------------ control: pause points owned by the harness

type control struct {
	mu      sync.Mutex
	paused  chan string // a goroutine of the code under test reports that it is parked at a pause point
	release chan struct{}
	open    bool // true once the harness has released everything: all pause points pass through
}

func newControl() *control {
	return &control{paused: make(chan string, 64), release: make(chan struct{})}
}

func (c *control) pause(what string) {
	c.mu.Lock()
	open := c.open
	c.mu.Unlock()
	if open {
		return
	}
	c.paused <- what
	<-c.release
}

func (c *control) releaseAll() {
	c.mu.Lock()
	if !c.open {
		c.open = true
		close(c.release)
	}
	c.mu.Unlock()
}

// blockReader feeds the archive in 512-byte blocks; at block cut it parks and then applies the fault.
type blockReader struct {
	data   []byte
	pos    int
	cut    int // block index (0-based) before which the reader parks; -1 = never
	fault  string
	ctl    *control
	cancel context.CancelFunc
	done   bool
	parked bool
}

func (r *blockReader) Read(p []byte) (int, error) {
	block := r.pos / 512
	if r.cut >= 0 && block >= r.cut && !r.parked {
		r.parked = true
		r.ctl.pause(fmt.Sprintf("reader@%d", block))
		switch r.fault {
		case "cancel":
			// the harness cancelled while we were parked
		}
	}
	if r.parked {
		switch r.fault {
		case "truncate":
			return 0, io.EOF
		case "error":
			return 0, errReader
		}
	}
	if r.pos >= len(r.data) {
		return 0, io.EOF
	}
	n := 512 - r.pos%512
	if n > len(p) {
		n = len(p)
	}
	if r.pos+n > len(r.data) {
		n = len(r.data) - r.pos
	}
	copy(p, r.data[r.pos:r.pos+n])
	r.pos += n
	return n, nil
}

// dest wraps the destination FS: it can hold one write of one entry and fail the i-th destination call.
type dest struct {
	inner    hackpadfs.FS
	ctl      *control
	holdName string
	mu       sync.Mutex
	calls    int
	failAt   int
	sticky   bool // a destination that broke stays broken: every later call fails too (a full or read-only disk)
	failHeld bool // the held write fails once it is released (a background failure that lands late, e.g. after a cancel)
	fired    string
	complete map[string]bool // entries whose file was completely written and closed before any fault
}

func (d *dest) tick(what string) error {
	d.mu.Lock()
	defer d.mu.Unlock()
	d.calls++
	if d.failAt > 0 && (d.calls == d.failAt || (d.sticky && d.calls > d.failAt)) {
		if d.fired == "" {
			d.fired = what
		}
		return errDest
	}
	return nil
}

func (d *dest) Open(name string) (hackpadfs.File, error) { return d.inner.Open(name) }
func (d *dest) OpenFile(name string, flag int, perm hackpadfs.FileMode) (hackpadfs.File, error) {
	if err := d.tick("openfile " + name); err != nil {
		return nil, err
	}
	f, err := hackpadfs.OpenFile(d.inner, name, flag, perm)
	if err != nil {
		return nil, err
	}
	return &destFile{File: f, d: d, name: name}, nil
}
func (d *dest) Mkdir(name string, perm hackpadfs.FileMode) error {
	if err := d.tick("mkdir " + name); err != nil {
		return err
	}
	return hackpadfs.Mkdir(d.inner, name, perm)
}
func (d *dest) MkdirAll(name string, perm hackpadfs.FileMode) error {
	if err := d.tick("mkdirall " + name); err != nil {
		return err
	}
	return hackpadfs.MkdirAll(d.inner, name, perm)
}
func (d *dest) Chmod(name string, mode hackpadfs.FileMode) error {
	if err := d.tick("chmod " + name); err != nil {
		return err
	}
	return hackpadfs.Chmod(d.inner, name, mode)
}

type destFile struct {
	hackpadfs.File
	d      *dest
	name   string
	writes int
}

func (f *destFile) Write(p []byte) (int, error) {
	f.writes++
	// hold the write that leaves the file visibly incomplete: the second write of a big entry, the only write of a small one
	big := len(p) >= 150*1024
	if f.name == f.d.holdName && ((f.writes == 1 && !big) || f.writes == 2) {
		f.d.ctl.pause("write@" + f.name)
		if f.d.failHeld {
			f.d.mu.Lock()
			if f.d.fired == "" {
				f.d.fired = "write " + f.name + " (held)"
			}
			f.d.mu.Unlock()
			return 0, errDest
		}
	}
	if err := f.d.tick("write " + f.name); err != nil {
		return 0, err
	}
	return hackpadfs.WriteFile(f.File, p)
}

// ------------------------------------------------------------------ case

type Opener struct {
	Name  string `json:"name"`
	Phase int    `json:"phase"` // 1: while the stream is parked; 2: right after the fault; 3: after Done
}

type Case struct {
	Entries  []Entry `json:"entries"`
	Cut      int     `json:"cut"`   // block index at which the reader parks (-1: never)
	Fault    string  `json:"fault"` // none truncate error cancel
	Hold     string  `json:"hold,omitempty"`
	DestFail int     `json:"dest_fail,omitempty"`
	// DestSticky: from the failing destination call on, every destination call fails (several background writers fail at once)
	DestSticky bool `json:"dest_sticky,omitempty"`
	// HoldFails: the held destination write fails when it is released (after whatever happened while it was parked)
	HoldFails bool     `json:"hold_fails,omitempty"`
	Openers   []Opener `json:"openers"`
	Settle    int      `json:"settle_us"`
}

type openResult struct {
	o    Opener
	data []byte
	err  error
	dir  bool
}

type stats struct {
	partialWindow bool // an opener ran while an entry was held half-written or the stream was cut
	faulted       bool
}

func check(c Case) (string, string, stats) {
	var sig, msg string
	var st stats
	pan, hung := vf.GuardN(6, func() { sig, msg, st = checkInner(c) })
	if hung {
		return "C13 harness-hang", "case did not terminate", st
	}
	if pan != "" {
		return "C13 panic", pan, st
	}
	return sig, msg, st
}

func checkInner(c Case) (string, string, stats) {
	var st stats
	archive := buildArchive(c.Entries)
	ctl := newControl()
	ctx, cancel := context.WithCancel(context.Background())
	defer cancel()
	rd := &blockReader{data: archive, cut: c.Cut, fault: c.Fault, ctl: ctl, cancel: cancel}
	d := &dest{inner: subj.NewMem(), ctl: ctl, holdName: c.Hold, failAt: c.DestFail, sticky: c.DestSticky, failHeld: c.HoldFails && c.Hold != ""}
	tfs, err := htar.NewReaderFS(ctx, rd, htar.ReaderFSOptions{UnarchiveFS: d})
	if err != nil {
		return "C13 constructor", err.Error(), st
	}
	byName := map[string]Entry{}
	for _, e := range c.Entries {
		byName[e.Name] = e
	}
	var wg sync.WaitGroup
	var rmu sync.Mutex
	var results []openResult
	launch := func(phase int) {
		for _, o := range c.Openers {
			if o.Phase != phase {
				continue
			}
			o := o
			wg.Add(1)
			go func() {
				defer wg.Done()
				r := openResult{o: o}
				f, err := tfs.Open(o.Name)
				if err != nil {
					r.err = err
				} else {
					fi, serr := f.Stat()
					if serr == nil && fi.IsDir() {
						r.dir = true
					} else {
						r.data, r.err = io.ReadAll(f)
					}
					_ = f.Close()
				}
				rmu.Lock()
				results = append(results, r)
				rmu.Unlock()
			}()
		}
	}
	// phase 1: wait until something parks (or the stream ends), then launch the first openers
	select {
	case <-ctl.paused:
		st.partialWindow = true
	case <-tfs.Done():
	case <-time.After(vf.WatchdogDur()):
		ctl.releaseAll()
		return "C13 stream-stuck", "neither a pause point nor the end of the stream was reached", st
	}
	launch(1)
	time.Sleep(time.Duration(c.Settle) * time.Microsecond)
	if c.Fault == "cancel" {
		cancel()
		time.Sleep(time.Duration(c.Settle) * time.Microsecond)
	}
	if c.Fault != "none" || c.DestFail > 0 || (c.HoldFails && c.Hold != "") {
		st.faulted = true
	}
	// phase 2: openers racing the fault while writers may still be parked
	launch(2)
	time.Sleep(time.Duration(c.Settle) * time.Microsecond)
	ctl.releaseAll()
	// everything must come to an end
	select {
	case <-tfs.Done():
	case <-time.After(vf.WatchdogDur()):
		return "C13 done-never-closed:" + c.Fault, fmt.Sprintf("Done() did not close after fault=%s cut=%d destfail=%d", c.Fault, c.Cut, c.DestFail), st
	}
	launch(3)
	waited := make(chan struct{})
	go func() { wg.Wait(); close(waited) }()
	select {
	case <-waited:
	case <-time.After(vf.WatchdogDur()):
		return "C13 open-never-returns:" + c.Fault, fmt.Sprintf("an Open did not return although the stream has ended (fault=%s cut=%d destfail=%d)", c.Fault, c.Cut, c.DestFail), st
	}
	uerr := tfs.UnarchiveErr()
	clean := c.Fault == "none" && (c.DestFail == 0 || d.fired == "") && !(c.HoldFails && d.fired != "")
	if c.Fault == "truncate" || c.Fault == "error" {
		if !rd.parked {
			clean = c.DestFail == 0 || d.fired == "" // the cut point lies beyond the archive: nothing happened
		}
	}
	if c.Fault == "cancel" && !rd.parked && c.Hold == "" {
		clean = false // cancelled at some point after the stream ended or never: outcome not pinned
	}
	if clean && c.Fault == "none" && uerr != nil {
		return "C13 spurious-unarchive-error", fmt.Sprintf("fault-free stream: UnarchiveErr() = %v", uerr), st
	}
	for _, r := range results {
		e, exists := byName[r.o.Name]
		what := fmt.Sprintf("Open(%q) in phase %d (fault=%s cut=%d hold=%q destfail=%d/%s)", r.o.Name, r.o.Phase, c.Fault, c.Cut, c.Hold, c.DestFail, d.fired)
		if r.err == nil && !exists && r.o.Name != "." {
			return "C13 missing-name-opened", what + " succeeded for a name that is not in the archive", st
		}
		if r.err == nil && exists && !e.Dir {
			want := content(e.Name, e.Size)
			if !bytes.Equal(r.data, want) {
				return "C13 partial-bytes:" + c.Fault, fmt.Sprintf("%s succeeded with %d of %d bytes", what, len(r.data), len(want)), st
			}
		}
		if r.err != nil && clean && c.Fault == "none" && exists {
			return "C13 open-fails-on-clean-stream", fmt.Sprintf("%s failed: %v", what, r.err), st
		}
	}
	// late check: after Done, whatever Open serves for a regular entry is complete
	for _, e := range c.Entries {
		if e.Dir {
			continue
		}
		f, err := tfs.Open(e.Name)
		if err != nil {
			if clean && c.Fault == "none" {
				return "C13 open-fails-on-clean-stream", fmt.Sprintf("after Done: Open(%q) = %v", e.Name, err), st
			}
			continue
		}
		data, rerr := io.ReadAll(f)
		_ = f.Close()
		if rerr != nil || !bytes.Equal(data, content(e.Name, e.Size)) {
			return "C13 partial-bytes-after-done:" + c.Fault, fmt.Sprintf("after Done (fault=%s cut=%d destfail=%d/%s): Open(%q) serves %d of %d bytes (%v)", c.Fault, c.Cut, c.DestFail, d.fired, e.Name, len(data), e.Size, rerr), st
		}
	}
	return "", "", st
}

// ------------------------------------------------------------------ generation

func genEntries(t *rapid.T, allowBig bool) []Entry {
	n := rapid.IntRange(1, 6).Draw(t, "nentries")
	var es []Entry
	used := map[string]bool{}
	hasDir := false
	for i := 0; i < n; i++ {
		name := rapid.SampledFrom([]string{"a", "b", "c", "d", "e", "f"}).Draw(t, "name")
		if hasDir && rapid.Bool().Draw(t, "indir") {
			name = "dir/" + name
		}
		if used[name] {
			continue
		}
		used[name] = true
		if !hasDir && rapid.IntRange(0, 4).Draw(t, "isdir") == 0 {
			es = append(es, Entry{Name: "dir", Dir: true})
			used["dir"] = true
			hasDir = true
			continue
		}
		size := rapid.SampledFrom([]int{0, 1, 100, 511, 512, 513, 700, 1500, 3000}).Draw(t, "size")
		if allowBig && rapid.IntRange(0, 3).Draw(t, "big") == 0 {
			size = rapid.SampledFrom([]int{153601, 160000, 200000}).Draw(t, "bigsize")
			allowBig = false
		}
		es = append(es, Entry{Name: name, Size: size})
	}
	if len(es) == 0 {
		es = append(es, Entry{Name: "a", Size: 100})
	}
	return es
}

func genOpeners(t *rapid.T, es []Entry) []Opener {
	names := []string{"missing", "."}
	for _, e := range es {
		names = append(names, e.Name, e.Name)
	}
	n := rapid.IntRange(1, 8).Draw(t, "nopeners")
	var os []Opener
	for i := 0; i < n; i++ {
		os = append(os, Opener{Name: rapid.SampledFrom(names).Draw(t, "oname"), Phase: rapid.IntRange(1, 3).Draw(t, "phase")})
	}
	return os
}

func blocks(es []Entry) int { return (len(buildArchive(es)) + 511) / 512 }

// TestStream: generated archives x generated cut point x fault kind x held write x openers.
func TestStream(t *testing.T) {
	vf.Check(t, "stream", func(rt *rapid.T, rec *vf.Rec) {
		es := genEntries(rt, true)
		c := Case{Entries: es, Fault: rapid.SampledFrom([]string{"none", "truncate", "truncate", "error", "cancel", "cancel"}).Draw(rt, "fault"), Settle: rapid.IntRange(0, 300).Draw(rt, "settle")}
		nb := blocks(es)
		c.Cut = rapid.IntRange(-1, nb).Draw(rt, "cut")
		if rapid.IntRange(0, 2).Draw(rt, "hold") == 0 {
			var files []string
			for _, e := range es {
				if !e.Dir {
					files = append(files, e.Name)
				}
			}
			if len(files) > 0 {
				c.Hold = rapid.SampledFrom(files).Draw(rt, "holdname")
				c.HoldFails = rapid.IntRange(0, 2).Draw(rt, "holdfails") == 0
			}
		}
		c.Openers = genOpeners(rt, es)
		rec.Step(c)
		rec.Class("fault:" + c.Fault)
		sig, msg, st := check(c)
		if st.partialWindow {
			rec.Class("opened-during-pause")
			rec.NonTrivial()
		}
		if sig != "" {
			rec.Failf(rt, sig, "%s", msg)
		}
	})
}

// TestCuts: for a generated small archive, EVERY cut point x {truncate, error, cancel}.
func TestCuts(t *testing.T) {
	vf.Check(t, "cuts", func(rt *rapid.T, rec *vf.Rec) {
		es := genEntries(rt, false)
		openers := genOpeners(rt, es)
		settle := rapid.IntRange(0, 100).Draw(rt, "settle")
		nb := blocks(es)
		rec.Step(map[string]any{"entries": es, "openers": openers, "blocks": nb})
		rec.NonTrivial()
		rec.Count("cut-points", (nb+1)*3)
		for cut := 0; cut <= nb; cut++ {
			for _, fault := range []string{"truncate", "error", "cancel"} {
				c := Case{Entries: es, Cut: cut, Fault: fault, Openers: openers, Settle: settle}
				if sig, msg, _ := check(c); sig != "" {
					rec.Step(c)
					rec.Failf(rt, sig, "%s", msg)
				}
			}
		}
	})
}

// TestDestFaults: for a generated archive, a failure injected at EVERY destination call index.
func TestDestFaults(t *testing.T) {
	vf.Check(t, "destfaults", func(rt *rapid.T, rec *vf.Rec) {
		es := genEntries(rt, true)
		openers := genOpeners(rt, es)
		// dry run to count destination calls
		dry := &dest{inner: subj.NewMem(), ctl: func() *control { c := newControl(); c.releaseAll(); return c }()}
		tfs, err := htar.NewReaderFS(context.Background(), bytes.NewReader(buildArchive(es)), htar.ReaderFSOptions{UnarchiveFS: dry})
		must(err)
		<-tfs.Done()
		n := dry.calls
		sticky := rapid.Bool().Draw(rt, "sticky")
		rec.Step(map[string]any{"entries": es, "openers": openers, "dest-calls": n, "sticky": sticky})
		rec.NonTrivial()
		if sticky {
			rec.Class("sticky-destination-failure")
		}
		rec.Count("dest-fault-sites", n)
		for i := 1; i <= n; i++ {
			c := Case{Entries: es, Cut: -1, Fault: "none", DestFail: i, Openers: openers, DestSticky: sticky}
			for rep := 0; rep < 3; rep++ { // what follows a failed background write is a race inside tar: repeat
				if sig, msg, _ := check(c); sig != "" {
					rec.Step(c)
					rec.Failf(rt, sig, "%s", msg)
				}
			}
		}
	})
}

// TestStress: the same cases free-running (nothing parked), repeated: a safety net for windows nobody thought to gate.
func TestStress(t *testing.T) {
	vf.Check(t, "stress", func(rt *rapid.T, rec *vf.Rec) {
		es := genEntries(rt, false)
		c := Case{Entries: es, Fault: rapid.SampledFrom([]string{"truncate", "error", "cancel"}).Draw(rt, "fault"), Openers: genOpeners(rt, es)}
		nb := blocks(es)
		c.Cut = rapid.IntRange(0, nb).Draw(rt, "cut")
		rec.Step(c)
		rec.NonTrivial()
		reps := 60
		for i := 0; i < reps; i++ {
			if sig, msg, _ := checkFree(c); sig != "" {
				rec.Failf(rt, sig, "%s", msg)
			}
		}
	})
}

// checkFree runs a case without any pause point (the reader applies its fault without parking).
func checkFree(c Case) (string, string, stats) {
	free := c
	var sig, msg string
	var st stats
	pan, hung := vf.GuardN(4, func() { sig, msg, st = checkFreeInner(free) })
	if hung {
		return "C13 harness-hang", "free-running case did not terminate", st
	}
	if pan != "" {
		return "C13 panic", pan, st
	}
	return sig, msg, st
}

func checkFreeInner(c Case) (string, string, stats) {
	var st stats
	archive := buildArchive(c.Entries)
	ctl := newControl()
	ctl.releaseAll()
	ctx, cancel := context.WithCancel(context.Background())
	defer cancel()
	rd := &blockReader{data: archive, cut: c.Cut, fault: c.Fault, ctl: ctl, cancel: cancel}
	d := &dest{inner: subj.NewMem(), ctl: ctl}
	tfs, err := htar.NewReaderFS(ctx, rd, htar.ReaderFSOptions{UnarchiveFS: d})
	if err != nil {
		return "C13 constructor", err.Error(), st
	}
	var wg sync.WaitGroup
	errs := make(chan string, len(c.Openers)+1)
	byName := map[string]Entry{}
	for _, e := range c.Entries {
		byName[e.Name] = e
	}
	if c.Fault == "cancel" {
		wg.Add(1)
		go func() { defer wg.Done(); cancel() }()
	}
	for _, o := range c.Openers {
		o := o
		wg.Add(1)
		go func() {
			defer wg.Done()
			f, err := tfs.Open(o.Name)
			if err != nil {
				return
			}
			defer func() { _ = f.Close() }()
			e, ok := byName[o.Name]
			if !ok || e.Dir {
				return
			}
			data, _ := io.ReadAll(f)
			if !bytes.Equal(data, content(e.Name, e.Size)) {
				errs <- fmt.Sprintf("free-running (fault=%s cut=%d): Open(%q) succeeded with %d of %d bytes", c.Fault, c.Cut, o.Name, len(data), e.Size)
			}
		}()
	}
	done := make(chan struct{})
	go func() { wg.Wait(); <-tfs.Done(); close(done) }()
	select {
	case <-done:
	case <-time.After(vf.WatchdogDur()):
		return "C13 open-never-returns:" + c.Fault, "free-running: an Open or Done() did not return", st
	}
	select {
	case m := <-errs:
		return "C13 partial-bytes:" + c.Fault, m, st
	default:
	}
	return "", "", st
}

func TestReplayAll(t *testing.T) {
	for _, leg := range []string{"stream", "cuts", "destfaults", "hooked"} {
		leg := leg
		t.Run(leg, func(t *testing.T) {
			vf.Replay(t, leg, func(steps []json.RawMessage) (string, string) {
				for _, raw := range steps {
					var c Case
					if err := json.Unmarshal(raw, &c); err != nil || c.Fault == "" {
						continue
					}
					for rep := 0; rep < 10; rep++ {
						if leg == "hooked" {
							if sig, msg := checkHooked(c); sig != "" {
								return sig, msg
							}
							continue
						}
						if sig, msg, _ := check(c); sig != "" {
							return sig, msg
						}
					}
				}
				return "", ""
			})
		})
	}
	t.Run("stress", func(t *testing.T) {
		vf.Replay(t, "stress", func(steps []json.RawMessage) (string, string) {
			for _, raw := range steps {
				var c Case
				if err := json.Unmarshal(raw, &c); err != nil || c.Fault == "" {
					continue
				}
				for rep := 0; rep < 20000; rep++ {
					if sig, msg, _ := checkFree(c); sig != "" {
						return sig, msg
					}
				}
			}
			return "", ""
		})
	})
}
