package c13

import (
	"bytes"
	"context"
	"encoding/json"
	"fmt"
	"sync/atomic"
	"testing"
	"time"

	"github.com/hack-pad/hackpadfs"
	htar "github.com/hack-pad/hackpadfs/tar"
	"pgregory.net/rapid"

	"verifharness/internal/subj"
	"verifharness/internal/vf"
)

// ------------------------------------------------------------------ many entries, a destination that has stopped working
//
// More small entries than the reader has small buffers (81), 0..2 directory entries, and a destination every call of
// which fails -- slowly, as a full or read-only disk does -- from its k-th call on. The source is faster than the
// destination, so all buffers are in flight when the failures arrive, several at once. Free-running, repeated.
// Oracle (liveness): Done() closes, UnarchiveErr reports the failure, and an Open returns.

type ManyFailCase struct {
	Files    int   `json:"files"`
	Dirs     []int `json:"dirs"` // positions (entry index) of directory entries
	FailFrom int   `json:"fail_from"`
	DelayUS  int   `json:"delay_us"`
	// Kinds: which kinds of destination calls fail (mkdir, openfile, chmod, write; empty = all) and after how long each:
	// a destination that takes its time to say no lets every buffer go out before the first failure comes back
	Kinds  []string `json:"kinds,omitempty"`
	KindUS []int    `json:"kind_us,omitempty"`
}

type slowDest struct {
	inner    hackpadfs.FS
	calls    int32
	failFrom int32
	delay    time.Duration
	kinds    map[string]time.Duration
}

func (d *slowDest) tick(kind string) error {
	n := atomic.AddInt32(&d.calls, 1)
	if d.kinds != nil {
		delay, fails := d.kinds[kind]
		if !fails {
			return nil
		}
		time.Sleep(delay)
		return errDest
	}
	if n >= d.failFrom {
		time.Sleep(d.delay)
		return errDest
	}
	return nil
}

// MkdirAll is what the reader calls in the foreground for an entry's parent directory.
func (d *slowDest) MkdirAll(name string, perm hackpadfs.FileMode) error {
	if err := d.tick("mkdirall"); err != nil {
		return &hackpadfs.PathError{Op: "mkdirall", Path: name, Err: err}
	}
	return hackpadfs.MkdirAll(d.inner, name, perm)
}

func (d *slowDest) Open(name string) (hackpadfs.File, error) { return d.inner.Open(name) }
func (d *slowDest) OpenFile(name string, flag int, perm hackpadfs.FileMode) (hackpadfs.File, error) {
	if err := d.tick("openfile"); err != nil {
		return nil, &hackpadfs.PathError{Op: "open", Path: name, Err: err}
	}
	f, err := hackpadfs.OpenFile(d.inner, name, flag, perm)
	if err != nil {
		return nil, err
	}
	return &slowFile{File: f, d: d}, nil
}
func (d *slowDest) Mkdir(name string, perm hackpadfs.FileMode) error {
	if err := d.tick("mkdir"); err != nil {
		return &hackpadfs.PathError{Op: "mkdir", Path: name, Err: err}
	}
	return hackpadfs.Mkdir(d.inner, name, perm)
}
func (d *slowDest) Chmod(name string, mode hackpadfs.FileMode) error {
	if err := d.tick("chmod"); err != nil {
		return &hackpadfs.PathError{Op: "chmod", Path: name, Err: err}
	}
	return hackpadfs.Chmod(d.inner, name, mode)
}

type slowFile struct {
	hackpadfs.File
	d *slowDest
}

func (f *slowFile) Write(p []byte) (int, error) {
	if err := f.d.tick("write"); err != nil {
		return 0, err
	}
	return hackpadfs.WriteFile(f.File, p)
}

func checkManyFail(c ManyFailCase) (string, string) {
	base := "C13 manyfail"
	var es []Entry
	isDir := map[int]bool{}
	for _, p := range c.Dirs {
		isDir[p] = true
	}
	for i := 0; len(es) < c.Files+len(c.Dirs); i++ {
		if isDir[i] {
			es = append(es, Entry{Name: fmt.Sprintf("d%d", i), Dir: true})
			continue
		}
		es = append(es, Entry{Name: fmt.Sprintf("f%03d", i), Size: 1 + (i*37)%1900})
	}
	archive := buildArchive(es)
	for rep := 0; rep < 3; rep++ {
		d := &slowDest{inner: subj.NewMem(), failFrom: int32(c.FailFrom), delay: time.Duration(c.DelayUS) * time.Microsecond}
		if len(c.Kinds) > 0 {
			d.kinds = map[string]time.Duration{}
			for i, k := range c.Kinds {
				d.kinds[k] = time.Duration(c.KindUS[i]) * time.Microsecond
			}
		}
		tfs, err := htar.NewReaderFS(context.Background(), bytes.NewReader(archive), htar.ReaderFSOptions{UnarchiveFS: d})
		if err != nil {
			return base + ":setup", err.Error()
		}
		select {
		case <-tfs.Done():
		case <-time.After(vf.WatchdogDur()):
			return base + ":done-never-closes", fmt.Sprintf("%d small entries and %d directory entries, every destination call from the %d. on failing after %dus: the stream has ended and every destination call has failed, but Done() does not close (repetition %d)", c.Files, len(c.Dirs), c.FailFrom, c.DelayUS, rep)
		}
		if tfs.UnarchiveErr() == nil && d.kinds == nil && atomic.LoadInt32(&d.calls) >= d.failFrom {
			return base + ":failure-not-reported", fmt.Sprintf("%+v: destination calls failed but UnarchiveErr() is nil after Done()", c)
		}
		var oerr error
		if pan, hung := vf.Guard(func() { _, oerr = tfs.Open("f000") }); pan != "" || hung {
			return base + ":open-never-returns", fmt.Sprintf("%+v: Open after Done(): hung=%v %s (%v)", c, hung, pan, oerr)
		}
	}
	return "", ""
}

func TestManyFail(t *testing.T) {
	vf.Check(t, "manyfail", func(rt *rapid.T, rec *vf.Rec) {
		c := ManyFailCase{
			Files:    rapid.IntRange(83, 120).Draw(rt, "files"),
			FailFrom: rapid.IntRange(1, 6).Draw(rt, "failfrom"),
			DelayUS:  rapid.SampledFrom([]int{0, 50, 200, 1000}).Draw(rt, "delay"),
		}
		for i, n := 0, rapid.IntRange(0, 2).Draw(rt, "ndirs"); i < n; i++ {
			c.Dirs = append(c.Dirs, rapid.IntRange(0, 5).Draw(rt, "dirpos"))
		}
		if rapid.IntRange(0, 2).Draw(rt, "bykind") != 0 {
			for _, k := range []string{"mkdir", "openfile", "chmod", "write"} {
				if rapid.IntRange(0, 2).Draw(rt, "fails:"+k) != 0 {
					c.Kinds = append(c.Kinds, k)
					c.KindUS = append(c.KindUS, rapid.SampledFrom([]int{0, 1000, 5000, 20000, 40000}).Draw(rt, "after:"+k))
				}
			}
			if len(c.Dirs) == 0 {
				c.Dirs = []int{0}
			}
		}
		rec.Step(c)
		rec.NonTrivial()
		if sig, msg := checkManyFail(c); sig != "" {
			rec.Failf(rt, sig, "%s", msg)
		}
	})
}

func TestReplayManyFail(t *testing.T) {
	vf.Replay(t, "manyfail", func(steps []json.RawMessage) (string, string) {
		for _, raw := range steps {
			var c ManyFailCase
			if err := json.Unmarshal(raw, &c); err != nil {
				return "bad-replay", err.Error()
			}
			if sig, msg := checkManyFail(c); sig != "" {
				return sig, msg
			}
		}
		return "", ""
	})
}
