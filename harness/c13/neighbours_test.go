package c13

import (
	"bytes"
	"context"
	"encoding/json"
	"fmt"
	"testing"
	"time"

	"github.com/hack-pad/hackpadfs"
	htar "github.com/hack-pad/hackpadfs/tar"
	"pgregory.net/rapid"

	"verifharness/internal/vf"
)

// ------------------------------------------------------------------ neighbours: other ReaderFS instances that are stuck
//
// "Every Open, and Done, returns once the stream has ended" is a statement about ONE tar FS and ITS stream. Here 0..3 other
// ReaderFS live in the same process, each parked by the harness in the middle of an entry's body (in the first 150 KiB, which
// is read into a small buffer, or beyond, which is copied through a big buffer), and stay parked while a further ReaderFS is
// given a complete archive: its Done() must close and its entry must open with the complete bytes whatever the others hold.

type NeighbourCase struct {
	Stalled   int `json:"stalled"`
	StallSize int `json:"stall_size"`
	StallAt   int `json:"stall_at"` // block index at which the neighbours' readers park
	Size      int `json:"size"`     // the entry of the tar FS under test
}

func checkNeighbours(c NeighbourCase) (string, string) {
	base := "C13 neighbours"
	var ctls []*control
	var others []*htar.ReaderFS
	defer func() {
		for _, ctl := range ctls {
			ctl.releaseAll()
		}
		for _, o := range others {
			select {
			case <-o.Done():
			case <-time.After(vf.WatchdogDur()):
			}
		}
	}()
	for i := 0; i < c.Stalled; i++ {
		ctl := newControl()
		ctls = append(ctls, ctl)
		rd := &blockReader{data: buildArchive([]Entry{{Name: "s.bin", Size: c.StallSize}}), cut: c.StallAt, ctl: ctl}
		o, err := htar.NewReaderFS(context.Background(), rd, htar.ReaderFSOptions{})
		if err != nil {
			return base + ":setup", err.Error()
		}
		others = append(others, o)
		select {
		case <-ctl.paused:
		case <-time.After(vf.WatchdogDur()):
			return base + ":neighbour-never-reached-its-stall", fmt.Sprintf("neighbour %d of %+v did not reach block %d of its own stream (it waits for something another instance holds)", i, c, c.StallAt)
		}
	}
	want := content("c.bin", c.Size)
	tfs, err := htar.NewReaderFS(context.Background(), bytes.NewReader(buildArchive([]Entry{{Name: "c.bin", Size: c.Size}})), htar.ReaderFSOptions{})
	if err != nil {
		return base + ":setup", err.Error()
	}
	select {
	case <-tfs.Done():
	case <-time.After(vf.WatchdogDur()):
		return base + ":done-never-closes", fmt.Sprintf("%d other ReaderFS are parked at block %d of a %d byte entry; a further ReaderFS was given a complete archive with one %d byte entry: its stream has ended but Done() does not close", c.Stalled, c.StallAt, c.StallSize, c.Size)
	}
	var got []byte
	var oerr error
	pan, hung := vf.Guard(func() { got, oerr = hackpadfs.ReadFile(tfs, "c.bin") })
	if hung || pan != "" {
		return base + ":open-never-returns", fmt.Sprintf("%+v: Open after Done(): hung=%v %s", c, hung, pan)
	}
	if oerr != nil || !bytes.Equal(got, want) {
		return base + ":wrong-contents", fmt.Sprintf("%+v: %d of %d bytes, err %v, UnarchiveErr %v", c, len(got), len(want), oerr, tfs.UnarchiveErr())
	}
	return "", ""
}

func TestNeighbours(t *testing.T) {
	vf.Check(t, "neighbours", func(rt *rapid.T, rec *vf.Rec) {
		const small = 150 * 1024
		c := NeighbourCase{
			Stalled:   rapid.IntRange(0, 3).Draw(rt, "stalled"),
			StallSize: rapid.SampledFrom([]int{small + 4096, 2 * small, 5 * 1024 * 1024}).Draw(rt, "stallsize"),
			Size:      rapid.SampledFrom([]int{0, 1000, small - 1, small, small + 1, 2 * small, 4*1024*1024 + 10}).Draw(rt, "size"),
		}
		// inside the part read into the small buffer, or inside the part copied through a big buffer
		if rapid.IntRange(0, 2).Draw(rt, "region") == 0 {
			c.StallAt = rapid.IntRange(1, small/512-1).Draw(rt, "at-small")
		} else {
			c.StallAt = rapid.IntRange(small/512+2, c.StallSize/512).Draw(rt, "at-big")
		}
		rec.Step(c)
		if c.Stalled >= 2 {
			rec.NonTrivial()
		}
		rec.Class(fmt.Sprintf("stalled:%d", c.Stalled))
		if sig, msg := checkNeighbours(c); sig != "" {
			rec.Failf(rt, sig, "%s", msg)
		}
	})
}

func TestReplayNeighbours(t *testing.T) {
	vf.Replay(t, "neighbours", func(steps []json.RawMessage) (string, string) {
		for _, raw := range steps {
			var c NeighbourCase
			if err := json.Unmarshal(raw, &c); err != nil {
				return "bad-replay", err.Error()
			}
			if sig, msg := checkNeighbours(c); sig != "" {
				return sig, msg
			}
		}
		return "", ""
	})
}
