// C14: store failures surface as errors: no silent data loss, no panic.
package c14

import (
	"bytes"
	"context"
	"encoding/json"
	"errors"
	"fmt"
	"io"
	"reflect"
	"sort"
	"strings"
	"testing"

	"github.com/hack-pad/hackpadfs"
	"github.com/hack-pad/hackpadfs/keyvalue"
	"github.com/hack-pad/hackpadfs/keyvalue/blob"
	"github.com/hack-pad/hackpadfs/mem"
	"pgregory.net/rapid"

	"verifharness/internal/gen"
	"verifharness/internal/kvstore"
	"verifharness/internal/ops"
	"verifharness/internal/vf"
)

func TestMain(m *testing.M) {
	registerProbes()
	vf.Main(m)
}

// Step is a namespace op (ops.Op) or a handle step (K starting with "h").
type Step struct {
	ops.Op
	Slot int `json:"slot,omitempty"`
}

// ------------------------------------------------------------------ rejecting TransactionStore around the real mem store

type rejectStore struct {
	inner      keyvalue.TransactionStore
	calls      int
	failAt     int
	failN      int // length of the outage in calls (0/1 = one call)
	fired      string
	failedSets int
}

func (r *rejectStore) Get(ctx context.Context, p string) (keyvalue.FileRecord, error) {
	return r.inner.Get(ctx, p)
}
func (r *rejectStore) Set(ctx context.Context, p string, src keyvalue.FileRecord) error {
	return r.inner.Set(ctx, p, src)
}

type slot struct {
	innerIdx int // index into the inner results, or -1 if rejected
}

type rejectTxn struct {
	st    *rejectStore
	inner keyvalue.Transaction
	slots []slot
	n     int
}

func (r *rejectStore) Transaction(o keyvalue.TransactionOptions) (keyvalue.Transaction, error) {
	t, err := r.inner.Transaction(o)
	if err != nil {
		return nil, err
	}
	return &rejectTxn{st: r, inner: t}, nil
}

func (t *rejectTxn) tick(what string) bool {
	t.st.calls++
	if n := t.st.failN; t.st.failAt > 0 && (t.st.calls == t.st.failAt || (n > 1 && t.st.calls > t.st.failAt && t.st.calls < t.st.failAt+n)) {
		if t.st.fired == "" {
			t.st.fired = what
		}
		if strings.HasPrefix(what, "set ") {
			t.st.failedSets++
		}
		return true
	}
	return false
}

func (t *rejectTxn) add(rejected bool, forward func()) keyvalue.OpID {
	id := keyvalue.OpID(len(t.slots))
	if rejected {
		t.slots = append(t.slots, slot{innerIdx: -1})
		return id
	}
	t.slots = append(t.slots, slot{innerIdx: t.n})
	t.n++
	forward()
	return id
}

func (t *rejectTxn) Get(p string) keyvalue.OpID {
	return t.add(t.tick("get "+p), func() { t.inner.Get(p) })
}
func (t *rejectTxn) GetHandler(p string, h keyvalue.OpHandler) keyvalue.OpID {
	return t.add(t.tick("get "+p), func() { t.inner.GetHandler(p, h) })
}
func (t *rejectTxn) Set(p string, src keyvalue.FileRecord, c blob.Blob) keyvalue.OpID {
	return t.add(t.tick("set "+p), func() { t.inner.Set(p, src, c) })
}
func (t *rejectTxn) SetHandler(p string, src keyvalue.FileRecord, c blob.Blob, h keyvalue.OpHandler) keyvalue.OpID {
	return t.add(t.tick("set "+p), func() { t.inner.SetHandler(p, src, c, h) })
}
func (t *rejectTxn) Commit(ctx context.Context) ([]keyvalue.OpResult, error) {
	res, err := t.inner.Commit(ctx)
	if err != nil {
		return nil, err
	}
	out := make([]keyvalue.OpResult, len(t.slots))
	for i, s := range t.slots {
		if s.innerIdx < 0 {
			out[i] = keyvalue.OpResult{Op: keyvalue.OpID(i), Err: kvstore.ErrInjected}
			continue
		}
		r := res[s.innerIdx]
		r.Op = keyvalue.OpID(i)
		out[i] = r
	}
	return out, nil
}
func (t *rejectTxn) Abort() error { return t.inner.Abort() }

// ------------------------------------------------------------------ locking TransactionStore over the lazy plain store

// lockStore is a TransactionStore the way mem's is -- Transaction() takes a store-wide lock that Commit/Abort release --
// but over the plain map store, so records are lazy and every store call, including the lazy loads made while a
// transaction is open, can be the one that fails. A transaction the FS opens and then abandons on an error path leaves
// the lock held: the next operation hangs (caught by the watchdog).
type lockStore struct {
	*kvstore.Store
	lock chan struct{}
}

type lockTxn struct {
	keyvalue.Transaction
	st   *lockStore
	done bool
}

func newLockStore(inner *kvstore.Store) *lockStore {
	return &lockStore{Store: inner, lock: make(chan struct{}, 1)}
}

func (l *lockStore) Transaction(o keyvalue.TransactionOptions) (keyvalue.Transaction, error) {
	l.lock <- struct{}{}
	t, err := keyvalue.TransactionOrSerial(l.Store, o) // the plain store is not a TransactionStore: the serial fallback
	if err != nil {
		<-l.lock
		return nil, err
	}
	return &lockTxn{Transaction: t, st: l}, nil
}

func (t *lockTxn) release() {
	if !t.done {
		t.done = true
		<-t.st.lock
	}
}

func (t *lockTxn) Commit(ctx context.Context) ([]keyvalue.OpResult, error) {
	defer t.release()
	return t.Transaction.Commit(ctx)
}

func (t *lockTxn) Abort() error {
	defer t.release()
	return t.Transaction.Abort()
}

// ------------------------------------------------------------------ environment

type env struct {
	kind     string
	plain    *kvstore.Store
	reject   *rejectStore
	fs       *keyvalue.FS
	slots    [2]hackpadfs.File
	slotPath [2]string
	slotSeq  [2]int // value of nsSeq when the slot's handle was opened
	nsSeq    int    // number of namespace-level steps applied so far
}

func newEnv(kind string, failAt int) (*env, error) {
	e := &env{kind: kind}
	var st keyvalue.Store
	if kind == "plain" {
		e.plain = kvstore.New()
		st = e.plain
	} else if kind == "locking" {
		e.plain = kvstore.New()
		st = newLockStore(e.plain)
	} else {
		e.reject = &rejectStore{inner: mem.NewStoreForVerif()}
		st = e.reject
	}
	fs, err := keyvalue.NewFS(st)
	if err != nil {
		return nil, err
	}
	e.fs = fs
	// the fault index counts calls made by the history, not by NewFS
	if e.plain != nil {
		e.plain.FailAt = 0
		if failAt > 0 {
			e.plain.FailAt = e.plain.Calls() + failAt
		}
	} else if failAt > 0 {
		e.reject.failAt = e.reject.calls + failAt
	}
	return e, nil
}

func (e *env) disarm() {
	if e.plain != nil {
		e.plain.FailAt = 0
	} else {
		e.reject.failAt = 0
	}
}

func (e *env) failedSets() int {
	if e.plain != nil {
		return e.plain.FailedSets
	}
	return e.reject.failedSets
}

func (e *env) calls() int {
	if e.plain != nil {
		return e.plain.Calls()
	}
	return e.reject.calls
}

func (e *env) fired() string {
	if e.plain != nil {
		return e.plain.Fired
	}
	return e.reject.fired
}

// apply runs one step; handle steps keep their handle in a slot.
func (e *env) apply(s Step) ops.Res {
	if !strings.HasPrefix(s.K, "h") {
		if mutatingStep(s.K) {
			e.nsSeq++
		}
		return ops.ApplyFS(e.fs, s.Op)
	}
	var res ops.Res
	pan, hung := vf.Guard(func() {
		f := e.slots[s.Slot]
		switch s.K {
		case "hopen":
			if f != nil {
				_ = f.Close()
			}
			nf, err := e.fs.OpenFile(s.P, s.Flag, 0o644)
			res.Err = err
			if err == nil {
				e.slots[s.Slot] = nf
				e.slotPath[s.Slot] = s.P
				e.slotSeq[s.Slot] = e.nsSeq
			} else {
				e.slots[s.Slot] = nil
			}
		case "hread":
			if f == nil {
				return
			}
			buf := make([]byte, 8)
			n, err := f.Read(buf)
			if err != nil && err != io.EOF {
				res.Err = err
			}
			res.Data = buf[:n]
		case "hwrite":
			if f == nil {
				return
			}
			_, res.Err = hackpadfs.WriteFile(f, s.Data)
		case "htrunc":
			if f == nil {
				return
			}
			res.Err = hackpadfs.TruncateFile(f, int64(s.N))
		case "hchmod":
			if f == nil {
				return
			}
			res.Err = hackpadfs.ChmodFile(f, hackpadfs.FileMode(s.Perm))
		case "hstat":
			if f == nil {
				return
			}
			fi, err := f.Stat()
			res.Err = err
			if err == nil {
				res.Info = &ops.Info{Name: fi.Name(), IsDir: fi.IsDir(), Size: fi.Size()}
			}
		case "hreaddir":
			if f == nil {
				return
			}
			des, err := hackpadfs.ReadDirFile(f, -1)
			res.Err = err
			for _, de := range des {
				res.Ents = append(res.Ents, ops.Ent{Name: de.Name(), IsDir: de.IsDir()})
			}
			sort.Slice(res.Ents, func(i, j int) bool { return res.Ents[i].Name < res.Ents[j].Name })
		case "hclose":
			if f == nil {
				return
			}
			res.Err = f.Close()
			e.slots[s.Slot] = nil
		}
	})
	if hung {
		return ops.Res{Hung: true}
	}
	if pan != "" {
		return ops.Res{Panic: pan}
	}
	return res
}

// storeContents reads the underlying store directly.
func (e *env) storeContents() map[string]ops.Node {
	out := map[string]ops.Node{}
	if e.plain != nil {
		for _, k := range e.plain.Keys() {
			r := e.plain.Recs[k]
			n := ops.Node{Kind: 'f', Perm: uint32(r.Mode.Perm()), Size: int64(len(r.Data)), Data: string(r.Data)}
			if r.Mode.IsDir() {
				n = ops.Node{Kind: 'd', Perm: uint32(r.Mode.Perm())}
			}
			out[k] = n
		}
		return out
	}
	for _, k := range mem.KeysForVerif(e.reject.inner) {
		rec, err := e.reject.inner.Get(context.Background(), k)
		if err != nil {
			continue
		}
		if rec.Mode().IsDir() {
			out[k] = ops.Node{Kind: 'd', Perm: uint32(rec.Mode().Perm())}
			continue
		}
		b, _ := rec.Data()
		out[k] = ops.Node{Kind: 'f', Perm: uint32(rec.Mode().Perm()), Size: int64(b.Len()), Data: string(b.Bytes())}
	}
	return out
}

// consistent: a fresh look-up through the FS shows exactly what the store holds.
func (e *env) consistent() string {
	store := e.storeContents()
	var prob string
	pan, hung := vf.Guard(func() {
		for k, want := range store {
			fi, err := e.fs.Stat(k)
			if err != nil {
				prob = fmt.Sprintf("the store holds %q (%v) but Stat fails: %v", k, want, err)
				return
			}
			if fi.IsDir() != (want.Kind == 'd') || uint32(fi.Mode().Perm()) != want.Perm {
				prob = fmt.Sprintf("the store holds %q as %v but Stat says dir=%v perm=%v", k, want, fi.IsDir(), fi.Mode().Perm())
				return
			}
			if want.Kind == 'f' {
				b, err := hackpadfs.ReadFile(e.fs, k)
				if err != nil || string(b) != want.Data {
					prob = fmt.Sprintf("the store holds %q with %q but ReadFile = %q, %v", k, want.Data, b, err)
					return
				}
			}
		}
		snap, p := ops.SnapFS(e.fs)
		if p != "" {
			prob = "snapshot: " + p
			return
		}
		for k, n := range snap {
			if n.Err != "" {
				prob = fmt.Sprintf("walking the FS: %q: %s", k, n.Err)
				return
			}
			if _, ok := store[k]; !ok {
				prob = fmt.Sprintf("the FS shows %q (%v) but the store does not hold it", k, n)
				return
			}
		}
	})
	if hung {
		return "look-up did not terminate"
	}
	if pan != "" {
		return pan
	}
	return prob
}

// Case is the replay format.
type Case struct {
	Kind  string `json:"kind"`
	Steps []Step `json:"steps"`
	// Outage: the store fails this many consecutive calls from each fault index on (0/1 = a single call)
	Outage int `json:"outage,omitempty"`
	// LazyGone (plain store): a failing lazy load of contents / of a listing fails with an error matching ErrNotExist
	LazyGone bool `json:"lazy_gone,omitempty"`
}

type outcome struct {
	storeCalls, faultRuns, fired int
}

func mutatingStep(k string) bool {
	switch k {
	case "stat", "readdir", "readfile", "hread", "hstat", "hreaddir", "hclose", "open", "lstat", "lstatorstat":
		return false
	}
	return true
}

func sameRes(a, b ops.Res) bool {
	if a.OK() != b.OK() {
		return false
	}
	if !a.OK() {
		return true
	}
	if !bytes.Equal(a.Data, b.Data) || !reflect.DeepEqual(a.Ents, b.Ents) {
		return false
	}
	if (a.Info == nil) != (b.Info == nil) {
		return false
	}
	if a.Info != nil {
		x, y := *a.Info, *b.Info
		x.Mtime, y.Mtime = 0, 0
		return x == y
	}
	return true
}

func check(c Case) (string, string, outcome) {
	var out outcome
	base := "C14/" + c.Kind
	dry, err := newEnv(c.Kind, 0)
	if err != nil {
		return base + " setup", err.Error(), out
	}
	start := dry.calls()
	dryRes := make([]ops.Res, len(c.Steps))
	for i, s := range c.Steps {
		dryRes[i] = dry.apply(s)
		if dryRes[i].Hung || dryRes[i].Panic != "" {
			return base + " fault-free:crash", fmt.Sprintf("step %d %v: %v", i, s, dryRes[i]), out
		}
	}
	n := dry.calls() - start
	if p := dry.consistent(); p != "" {
		return base + " fault-free:inconsistent", p, out
	}
	dryContents := dry.storeContents()
	out.storeCalls = n
	if n > 200 {
		n = 200
	}
	for fault := 1; fault <= n; fault++ {
		e, err := newEnv(c.Kind, fault)
		if err != nil {
			return base + " setup", err.Error(), out
		}
		if e.plain != nil {
			e.plain.FailLen = c.Outage
			e.plain.LazyNotExist = c.LazyGone
		} else {
			e.reject.failN = c.Outage
		}
		out.faultRuns++
		firedAt := -1
		allSame := true
		for i, s := range c.Steps {
			setsBefore := e.failedSets()
			res := e.apply(s)
			if res.OK() && (s.K == "hchmod" || s.K == "chmod") {
				// a change of mode that reports success is in the store (whatever failed before it)
				p := s.P
				if s.K == "hchmod" {
					p = e.slotPath[s.Slot]
					if e.slots[s.Slot] == nil || e.slotSeq[s.Slot] != e.nsSeq {
						p = "" // no handle, or the namespace changed since it was opened (the path may name something else now)
					}
				}
				if n, ok := e.storeContents()[p]; ok && p != "" && p != "." && n.Perm != s.Perm&0o777 {
					return base + " success-not-in-store:" + s.K, fmt.Sprintf("store call %d failing: step %d %v reported success, but the store holds %q with mode %o", fault, i, s, p, n.Perm), out
				}
			}
			if res.OK() && e.failedSets() > setsBefore && !strings.HasPrefix(s.K, "hclose") {
				return base + " swallowed:set:" + s.K, fmt.Sprintf("store call %d failing (outage %d): the store rejected a Set during step %d %v, but the operation reported success", fault, c.Outage, i, s), out
			}
			if !sameRes(res, dryRes[i]) || (firedAt < 0 && e.fired() != "" && !res.OK()) || errors.Is(res.Err, kvstore.ErrInjected) {
				// a different result, or the operation hit by the fault failed (its effects may then legitimately be missing)
				allSame = false
			}
			if res.Hung {
				return base + " hang", fmt.Sprintf("store call %d failing: step %d %v did not return", fault, i, s), out
			}
			if res.Panic != "" {
				what := "after-fault"
				if firedAt < 0 && e.fired() != "" {
					what = "at-fault"
				}
				return base + " panic:" + what + ":" + s.K, fmt.Sprintf("store call %d (%s) failing: step %d %v: %s", fault, e.fired(), i, s, res.Panic), out
			}
			if firedAt < 0 && e.fired() != "" {
				firedAt = i
				out.fired++
				kind := strings.Fields(e.fired())[0]
				if res.OK() {
					if kind == "set" {
						return base + " swallowed:set:" + s.K, fmt.Sprintf("the store rejected %q during step %d %v, but the operation reported success", e.fired(), i, s), out
					}
					if !sameRes(res, dryRes[i]) {
						return base + " swallowed:" + kind + ":" + s.K, fmt.Sprintf("store call %q failed during step %d %v; the operation reported success with a different result (%v) than without the fault (%v)", e.fired(), i, s, res, dryRes[i]), out
					}
				}
			}
		}
		e.disarm()
		// RemoveAll told by the store that its own target "is gone" has nothing to do and nothing to report: "does not exist"
		// is an answer there, not a failure (the one operation for which it is)
		goneIsAnAnswer := c.LazyGone && firedAt >= 0 && c.Steps[firedAt].K == "removeall" && strings.HasSuffix(e.fired(), " "+c.Steps[firedAt].P)
		if allSame && firedAt >= 0 && !goneIsAnAnswer {
			// every operation reported exactly what it reports without the fault: then nothing may be missing from the store either
			if got := e.storeContents(); !reflect.DeepEqual(got, dryContents) {
				return base + " silent-loss:" + strings.Fields(e.fired())[0] + ":" + c.Steps[firedAt].K, fmt.Sprintf("store call %q failed during step %d %v; every operation of the history reported the same result as without the fault, but the store ends up with %v instead of %v", e.fired(), firedAt, c.Steps[firedAt], got, dryContents), out
			}
		}
		if p := e.consistent(); p != "" {
			return base + " inconsistent-after-fault", fmt.Sprintf("after store call %d (%s) failed during step %d of %v: %s", fault, e.fired(), firedAt, c.Steps, p), out
		}
	}
	if sig, msg := constructCheck(c, dry); sig != "" {
		return sig, msg, out
	}
	return "", "", out
}

// constructCheck: constructing the file system is an operation as well (it makes the root directory). A store call that
// fails inside NewFS -- over a fresh store, or over the store the fault-free history has left behind -- makes NewFS fail, or
// NewFS hands out a file system whose root answers and which shows what the store holds.
func constructCheck(c Case, dry *env) (string, string) {
	base := "C14/" + c.Kind
	want, _ := ops.SnapFS(dry.fs)
	for _, populated := range []bool{false, true} {
		for fault := 1; fault <= 4; fault++ {
			e := &env{kind: c.Kind}
			var st keyvalue.Store
			switch {
			case c.Kind == "reject" && populated:
				e.reject = dry.reject
				st = e.reject
			case c.Kind == "reject":
				e.reject = &rejectStore{inner: mem.NewStoreForVerif()}
				st = e.reject
			default:
				e.plain = kvstore.New()
				if populated {
					e.plain = dry.plain
				}
				st = e.plain
				if c.Kind == "locking" {
					st = newLockStore(e.plain)
				}
			}
			if e.plain != nil {
				e.plain.Fired, e.plain.FailLen, e.plain.FailAt = "", 0, e.plain.Calls()+fault
			} else {
				e.reject.fired, e.reject.failN, e.reject.failAt = "", 0, e.reject.calls+fault
			}
			var fs *keyvalue.FS
			var err error
			pan, hung := vf.Guard(func() { fs, err = keyvalue.NewFS(st) })
			fired := e.fired()
			e.disarm()
			if pan != "" || hung {
				return base + " construct:crash", fmt.Sprintf("NewFS (populated store: %v) with store call %d (%s) failing: %s hung=%v", populated, fault, fired, pan, hung)
			}
			if err != nil || fs == nil {
				if fired == "" {
					return base + " construct:fault-free-error", fmt.Sprintf("NewFS (populated store: %v) failed without a failing store call: %v", populated, err)
				}
				continue
			}
			fi, serr := fs.Stat(".")
			if serr != nil || !fi.IsDir() {
				return base + " construct:swallowed", fmt.Sprintf("NewFS (populated store: %v) reported success although store call %d (%s) failed, and the root does not answer: Stat(\".\") = %v", populated, fault, fired, serr)
			}
			if populated {
				if got, _ := ops.SnapFS(fs); !reflect.DeepEqual(got, want) {
					return base + " construct:tree-differs", fmt.Sprintf("NewFS over the store of %v with store call %d (%s) failing reported success but shows %v, the store holds %v", c.Steps, fault, fired, got, want)
				}
			}
		}
	}
	return "", ""
}

func genSteps(t *rapid.T) []Step {
	n := rapid.IntRange(1, 12).Draw(t, "n")
	scratch, _ := newEnv("plain", 0)
	var steps []Step
	if rapid.IntRange(0, 2).Draw(t, "populated") == 0 {
		// start from a non-empty directory (with a nested one sometimes), so that the operations that walk or move
		// whole subtrees -- Rename of a directory, RemoveAll, listings -- have something to lose when a store call fails
		d := rapid.SampledFrom(gen.Names).Draw(t, "pd")
		pre := []ops.Op{{K: "mkdir", P: d, Perm: 0o755}, {K: "writefile", P: d + "/" + rapid.SampledFrom(gen.Names).Draw(t, "pf"), Perm: 0o644, Data: []byte("data")}}
		if rapid.Bool().Draw(t, "nested") {
			sub := d + "/" + rapid.SampledFrom(gen.Names).Draw(t, "ps")
			pre = append(pre, ops.Op{K: "mkdirall", P: sub, Perm: 0o755}, ops.Op{K: "writefile", P: sub + "/" + rapid.SampledFrom(gen.Names).Draw(t, "pg"), Perm: 0o600, Data: []byte("deep")})
		}
		for _, op := range pre {
			s := Step{Op: op}
			_ = scratch.apply(s)
			steps = append(steps, s)
		}
		// and aim one step at the directory itself
		snap, _ := ops.SnapFS(scratch.fs)
		tr := gen.TreeOf(snap)
		k := rapid.SampledFrom([]string{"rename", "rename", "removeall", "readdir", "remove", "chmod"}).Draw(t, "pk")
		s := Step{Op: ops.Op{K: k, P: d, Perm: 0o700}}
		if k == "rename" {
			s.P2 = gen.Second(t, tr, d, gen.Names, 2, true, "pp2")
		}
		_ = scratch.apply(s)
		steps = append(steps, s)
	}
	for i := 0; i < n; i++ {
		snap, _ := ops.SnapFS(scratch.fs)
		if snap == nil {
			snap = ops.Snap{".": ops.Node{Kind: 'd'}}
		}
		tr := gen.TreeOf(snap)
		if len(tr.Dirs) == 0 {
			tr.Dirs = []string{"."}
		}
		var s Step
		if rapid.IntRange(0, 9).Draw(t, "handle") < 3 {
			s.K = rapid.SampledFrom([]string{"hopen", "hopen", "hread", "hwrite", "hwrite", "htrunc", "hchmod", "hchmod", "hstat", "hreaddir", "hclose"}).Draw(t, "hk")
			s.Slot = rapid.IntRange(0, 1).Draw(t, "slot")
			switch s.K {
			case "hopen":
				s.P = gen.Path(t, tr, gen.Names, 2, true, "p")
				s.Flag = gen.Flags(t, "flag")
			case "hwrite":
				s.Data = gen.Payload(t, 6, "data")
			case "hchmod":
				s.Perm = uint32(rapid.SampledFrom([]int{0o600, 0o644, 0o600}).Draw(t, "hperm")) // few values: repeats happen
			case "htrunc":
				s.N = rapid.IntRange(0, 8).Draw(t, "size")
			}
		} else {
			s.Op = gen.Op(t, tr, gen.Names, 2, true)
		}
		_ = scratch.apply(s)
		steps = append(steps, s)
		if (s.K == "hchmod" || s.K == "htrunc" || s.K == "chmod") && rapid.Bool().Draw(t, "again") {
			// the same call once more: what a caller does after the first attempt failed
			_ = scratch.apply(s)
			steps = append(steps, s)
		}
	}
	return steps
}

func run(t *testing.T, kind string) {
	vf.Check(t, kind, func(rt *rapid.T, rec *vf.Rec) {
		c := Case{Kind: kind, Steps: genSteps(rt)}
		if rapid.IntRange(0, 2).Draw(rt, "outage") == 0 {
			c.Outage = rapid.IntRange(2, 6).Draw(rt, "outagelen")
			rec.Class("outage")
		}
		if kind == "plain" && rapid.Bool().Draw(rt, "lazygone") {
			c.LazyGone = true
			rec.Class("lazy-load-fails-as-not-exist")
		}
		if k := knownSig(c); k != "" {
			rec.Excluded(k)
			rt.Skip("known finding")
		}
		rec.Step(c)
		sig, msg, out := check(c)
		rec.Count("store-calls", out.storeCalls)
		rec.Count("fault-runs", out.faultRuns)
		rec.Count("faults-fired", out.fired)
		muts := 0
		for _, s := range c.Steps {
			if mutatingStep(s.K) {
				muts++
			}
		}
		if out.fired >= 3 && muts >= 1 {
			rec.NonTrivial()
		}
		if sig != "" {
			rec.Failf(rt, sig, "%s", msg)
		}
	})
}

func TestPlain(t *testing.T)   { run(t, "plain") }
func TestReject(t *testing.T)  { run(t, "reject") }
func TestLocking(t *testing.T) { run(t, "locking") }

func TestReplayAll(t *testing.T) {
	for _, kind := range []string{"plain", "reject", "locking"} {
		kind := kind
		t.Run(kind, func(t *testing.T) {
			vf.Replay(t, kind, func(steps []json.RawMessage) (string, string) {
				for _, raw := range steps {
					var c Case
					if err := json.Unmarshal(raw, &c); err != nil {
						return "bad-replay", err.Error()
					}
					if sig, msg, _ := check(c); sig != "" {
						return sig, msg
					}
				}
				return "", ""
			})
		})
	}
}

func knownSig(c Case) string { return "" }
func registerProbes()        {}

var _ = errors.Is
