//go:build js && wasm

package c19

import (
	"github.com/hack-pad/hackpadfs/indexeddb/idbblob"
	"github.com/hack-pad/hackpadfs/keyvalue/blob"
)

func init() {
	impls["idb"] = func(data []byte) blob.Blob {
		return idbblob.FromBlob(blob.NewBytes(append([]byte(nil), data...)))
	}
}
