// C19: blobs behave as plain byte sequences: exact results, errors not panics.
// Builds natively (blob.Bytes) and under GOOS=js GOARCH=wasm (blob.Bytes and idbblob.Blob, run with node).
package c19

import (
	"bytes"
	"encoding/json"
	"fmt"
	"testing"

	"github.com/hack-pad/hackpadfs/keyvalue/blob"
	"pgregory.net/rapid"

	"verifharness/internal/vf"
)

func TestMain(m *testing.M) {
	registerProbes()
	vf.Main(m)
}

// impls maps an implementation name to its constructor (idb is registered only under js/wasm).
var impls = map[string]func(data []byte) blob.Blob{
	"bytes": func(data []byte) blob.Blob { return blob.NewBytes(append([]byte(nil), data...)) },
}

// mustError: implementations that must answer out-of-range arguments with an error (the byte-slice one).
var mustError = map[string]bool{"bytes": true}

// Step is one operation (replay format). Blob indices refer to the pool in creation order.
type Step struct {
	K      string `json:"k"` // view slice set grow truncate len bytes
	I      int    `json:"i"`
	J      int    `json:"j,omitempty"` // set: source
	A      int64  `json:"a,omitempty"` // start / offset / size
	B      int64  `json:"b,omitempty"` // end
	Helper bool   `json:"helper,omitempty"`
}

type Header struct {
	Impl string `json:"impl"`
	Data []byte `json:"data"`
}

type entry struct {
	impl    blob.Blob
	m       []byte // the model: a Go slice, views share the parent's backing array
	group   int
	retired bool
	// lenOnly: a former alias partner has been resized. Whether a later write through that partner still reaches this
	// blob legitimately differs between Go slices and typed arrays, so its bytes are no longer pinned -- but its LENGTH is:
	// in the []byte model a view is its own sequence, and resizing one never changes the length of another.
	lenOnly bool
	wantLen int
}

type machine struct {
	implName string
	pool     []*entry
	groups   int
	// stats
	aliasedSet bool
	outOfRange int
	lenOnlyN   int
	nontrivial bool
}

func newMachine(h Header) *machine {
	m := &machine{implName: h.Impl}
	data := append([]byte(nil), h.Data...)
	m.pool = append(m.pool, &entry{impl: impls[h.Impl](data), m: append([]byte(nil), data...), group: 0})
	m.groups = 1
	return m
}

func (m *machine) retireGroupExcept(e *entry) {
	for _, o := range m.pool {
		if o != e && o.group == e.group && !o.retired {
			o.retired = true
			o.lenOnly = true
			o.wantLen = len(o.m)
			m.lenOnlyN++
		}
	}
}

// compareAll checks every live blob against its model.
func (m *machine) compareAll(after string) (string, string) {
	for i, e := range m.pool {
		if e.retired && e.lenOnly {
			var l int
			pan, hung := vf.Guard(func() { l = e.impl.Len(); l2 := len(e.impl.Bytes()); _ = l2 })
			if pan != "" || hung {
				return "observe-crash", fmt.Sprintf("after %s: Len/Bytes of blob %d: %s hung=%v", after, i, pan, hung)
			}
			if l != e.wantLen {
				return "alias-length", fmt.Sprintf("after %s: blob %d (an alias partner of the resized blob) has Len=%d, model %d", after, i, l, e.wantLen)
			}
			continue
		}
		if e.retired {
			continue
		}
		var l int
		var b []byte
		pan, hung := vf.Guard(func() { l = e.impl.Len(); b = e.impl.Bytes() })
		if pan != "" || hung {
			return "observe-crash", fmt.Sprintf("after %s: Len/Bytes of blob %d: %s hung=%v", after, i, pan, hung)
		}
		if l != len(e.m) || !bytes.Equal(b, e.m) {
			return "contents", fmt.Sprintf("after %s: blob %d has Len=%d Bytes=%q, model %q", after, i, l, b, e.m)
		}
	}
	return "", ""
}

func (m *machine) step(s Step) (string, string) {
	base := fmt.Sprintf("C19/%s %s", m.implName, s.K)
	if s.I >= len(m.pool) || m.pool[s.I].retired {
		return "", ""
	}
	e := m.pool[s.I]
	n := int64(len(e.m))
	desc := fmt.Sprintf("%+v", s)
	var err error
	var res blob.Blob
	var cnt int
	var pan string
	var hung bool
	switch s.K {
	case "view", "slice":
		inRange := 0 <= s.A && s.A <= s.B && s.B <= n
		pan, hung = vf.Guard(func() {
			switch {
			case s.K == "view" && s.Helper:
				res, err = blob.View(e.impl, s.A, s.B)
			case s.K == "view":
				res, err = e.impl.(blob.ViewBlob).View(s.A, s.B)
			case s.Helper:
				res, err = blob.Slice(e.impl, s.A, s.B)
			default:
				res, err = e.impl.(blob.SliceBlob).Slice(s.A, s.B)
			}
		})
		if pan != "" || hung {
			return base + ":crash", fmt.Sprintf("%s on a blob of length %d: %s hung=%v", desc, n, pan, hung)
		}
		if !inRange {
			m.outOfRange++
			if err == nil && mustError[m.implName] {
				return base + ":out-of-range-accepted", fmt.Sprintf("%s on a blob of length %d returned no error", desc, n)
			}
			break
		}
		if err != nil {
			return base + ":in-range-error", fmt.Sprintf("%s on a blob of length %d: %v", desc, n, err)
		}
		ne := &entry{impl: res}
		if s.K == "view" {
			ne.m = e.m[s.A:s.B:s.B]
			ne.group = e.group
			if e != m.pool[0] {
				m.nontrivial = true // view of a view
			}
		} else {
			ne.m = append([]byte(nil), e.m[s.A:s.B]...)
			ne.group = m.groups
			m.groups++
		}
		if res == e.impl {
			// the implementation may hand back the blob itself for the full range (typed-array one does): then it is the same object
			ne.m = e.m
			ne.group = e.group
			ne.impl = res
		}
		m.pool = append(m.pool, ne)
	case "set":
		if s.J >= len(m.pool) || m.pool[s.J].retired {
			return "", ""
		}
		src := m.pool[s.J]
		sl := int64(len(src.m))
		inRange := 0 <= s.A && s.A <= n && s.A+sl <= n
		atEnd := s.A == n && sl > 0
		overflow := 0 <= s.A && s.A < n && s.A+sl > n
		if overflow {
			return "", "" // the two implementations legitimately differ (truncated copy vs RangeError); not pinned by the statement
		}
		pan, hung = vf.Guard(func() {
			if s.Helper {
				cnt, err = blob.Set(e.impl, src.impl, s.A)
			} else {
				cnt, err = e.impl.(blob.SetBlob).Set(src.impl, s.A)
			}
		})
		if hung {
			return base + ":does-not-terminate", fmt.Sprintf("%s (destination length %d, source is blob %d of length %d, same alias group: %v) did not return", desc, n, s.J, sl, src.group == e.group)
		}
		if pan != "" {
			return base + ":crash", fmt.Sprintf("%s (destination length %d, source length %d): %s", desc, n, sl, pan)
		}
		if src.group == e.group {
			m.aliasedSet = true
			m.nontrivial = true
		}
		switch {
		case atEnd:
			m.outOfRange++
			if cnt != 0 {
				return base + ":at-end-count", fmt.Sprintf("%s at the end of a blob of length %d returned n=%d", desc, n, cnt)
			}
		case !inRange:
			m.outOfRange++
			if err == nil && mustError[m.implName] {
				return base + ":out-of-range-accepted", fmt.Sprintf("%s (destination length %d, source length %d) returned no error", desc, n, sl)
			}
		default:
			if err != nil || int64(cnt) != sl {
				return base + ":in-range-result", fmt.Sprintf("%s (destination length %d, source length %d) = (%d, %v)", desc, n, sl, cnt, err)
			}
			copy(e.m[s.A:], src.m) // memmove semantics, also when source and destination overlap
		}
	case "grow":
		pan, hung = vf.Guard(func() {
			if s.Helper {
				err = blob.Grow(e.impl, s.A)
			} else {
				err = e.impl.(blob.GrowBlob).Grow(s.A)
			}
		})
		if pan != "" || hung {
			return base + ":crash", fmt.Sprintf("%s on a blob of length %d: %s hung=%v", desc, n, pan, hung)
		}
		if s.A < 0 {
			m.outOfRange++
			if err == nil && mustError[m.implName] {
				return base + ":out-of-range-accepted", fmt.Sprintf("%s returned no error", desc)
			}
			break
		}
		if err != nil {
			return base + ":in-range-error", fmt.Sprintf("%s: %v", desc, err)
		}
		// aliasing across a resize call is not pinned (Go slices and typed arrays legitimately differ, and a
		// no-op resize may or may not reallocate): the other members of the alias group leave the pool
		m.retireGroupExcept(e)
		e.m = append(append([]byte(nil), e.m...), make([]byte, s.A)...)
		e.group = m.groups
		m.groups++
	case "truncate":
		pan, hung = vf.Guard(func() {
			if s.Helper {
				err = blob.Truncate(e.impl, s.A)
			} else {
				err = e.impl.(blob.TruncateBlob).Truncate(s.A)
			}
		})
		if pan != "" || hung {
			return base + ":crash", fmt.Sprintf("%s on a blob of length %d: %s hung=%v", desc, n, pan, hung)
		}
		switch {
		case s.A < 0:
			m.outOfRange++
			if err == nil && mustError[m.implName] {
				return base + ":out-of-range-accepted", fmt.Sprintf("%s returned no error", desc)
			}
		case s.A > n:
			m.outOfRange++ // larger than the blob: nothing to cut; unchanged, error or nil
			m.retireGroupExcept(e)
			e.m = append([]byte(nil), e.m...)
			e.group = m.groups
			m.groups++
		default:
			if err != nil {
				return base + ":in-range-error", fmt.Sprintf("%s on a blob of length %d: %v", desc, n, err)
			}
			// cutting one sequence short neither shortens nor rewrites its alias partners (re-slice in Go, a new
			// typed-array header in js): checked once, right here, before their bytes stop being pinned
			for i, o := range m.pool {
				if o == e || o.retired || o.group != e.group {
					continue
				}
				var b []byte
				if pan, hung := vf.Guard(func() { b = o.impl.Bytes() }); pan != "" || hung {
					return base + ":observe-crash", fmt.Sprintf("after %s: Bytes of blob %d: %s hung=%v", desc, i, pan, hung)
				}
				if !bytes.Equal(b, o.m) {
					return base + ":alias-changed", fmt.Sprintf("after %s: alias partner %d has Bytes=%q, model %q", desc, i, b, o.m)
				}
			}
			// ... and in the []byte model cutting a sequence short is a re-slice: it goes on sharing the kept prefix with
			// its alias partners (a later Set through either is seen through the other)
			e.m = e.m[:s.A:s.A]
		}
	case "len", "bytes":
		// observation only; compareAll does the work
	default:
		panic("unknown step " + s.K)
	}
	if sig, msg := m.compareAll(desc); sig != "" {
		return base + ":" + sig, msg
	}
	return "", ""
}

func genStep(t *rapid.T, m *machine) Step {
	var live []int
	for i, e := range m.pool {
		if !e.retired {
			live = append(live, i)
		}
	}
	s := Step{K: rapid.SampledFrom([]string{"view", "view", "slice", "set", "set", "set", "grow", "truncate", "len", "bytes"}).Draw(t, "k")}
	s.I = rapid.SampledFrom(live).Draw(t, "i")
	s.Helper = rapid.Bool().Draw(t, "helper")
	n := len(m.pool[s.I].m)
	arg := func(label string) int64 { return int64(rapid.IntRange(-2, n+2).Draw(t, label)) }
	switch s.K {
	case "view", "slice":
		s.A, s.B = arg("start"), arg("end")
		if rapid.IntRange(0, 3).Draw(t, "ordered") != 0 && s.A > s.B {
			s.A, s.B = s.B, s.A
		}
		switch rapid.IntRange(0, 7).Draw(t, "boundary") {
		case 0:
			s.A, s.B = 0, int64(n) // the whole blob
		case 1:
			s.B = s.A // empty
		}
	case "set":
		s.J = rapid.SampledFrom(live).Draw(t, "j")
		s.A = arg("off")
	case "grow":
		s.A = int64(rapid.IntRange(-2, 6).Draw(t, "by"))
	case "truncate":
		s.A = arg("size")
	}
	return s
}

func run(t *testing.T, impl string) {
	if impls[impl] == nil {
		t.Skip("implementation not available on this platform")
	}
	vf.Check(t, impl, prop(impl))
}

func prop(impl string) func(rt *rapid.T, rec *vf.Rec) {
	return func(rt *rapid.T, rec *vf.Rec) {
		h := Header{Impl: impl, Data: rapid.SliceOfN(rapid.ByteRange('a', 'z'), 0, 64).Draw(rt, "data")}
		if rapid.IntRange(0, 5).Draw(rt, "large") == 0 {
			// beyond the sizes at which an implementation might start to manage its memory differently
			h.Data = append(h.Data, bytes.Repeat([]byte("0123456789abcdef"), rapid.IntRange(16, 20).Draw(rt, "blocks"))...)
		}
		if h.Data == nil {
			h.Data = []byte{}
		}
		rec.Step(h)
		m := newMachine(h)
		rt.Repeat(map[string]func(*rapid.T){
			"step": func(rt *rapid.T) {
				s := genStep(rt, m)
				if k := knownSig(m, s); k != "" {
					rec.Excluded(k)
					rt.Skip("known finding")
				}
				rec.Step(s)
				rec.Class("op:" + s.K)
				if sig, msg := m.step(s); sig != "" {
					rec.Failf(rt, sig, "%s", msg)
				}
			},
		})
		if m.aliasedSet {
			rec.Class("set-within-alias-group")
		}
		if m.outOfRange > 0 {
			rec.Class("has-out-of-range-call")
		}
		if m.lenOnlyN > 0 {
			rec.Class("resize-with-alias-partners")
		}
		if m.nontrivial || m.outOfRange > 0 {
			rec.NonTrivial()
		}
	}
}

// FuzzBytes drives the same state machine from coverage-guided byte strings (thorough tier).
func FuzzBytes(f *testing.F) {
	f.Add([]byte{})
	f.Add(bytes.Repeat([]byte{0xff, 0x01, 0x80, 0x7f}, 40))
	f.Add(bytes.Repeat([]byte{0x00, 0x02, 0x10, 0x55, 0xaa}, 60))
	f.Fuzz(vf.MakeFuzz("fuzzbytes", prop("bytes")))
}

func TestBytes(t *testing.T) { run(t, "bytes") }
func TestIDB(t *testing.T)   { run(t, "idb") }

func TestReplayAll(t *testing.T) {
	for _, impl := range []string{"bytes", "idb", "bytes-js", "idb-js", "fuzzbytes"} {
		impl := impl
		t.Run(impl, func(t *testing.T) {
			vf.Replay(t, impl, func(steps []json.RawMessage) (string, string) {
				if len(steps) == 0 {
					return "", ""
				}
				var h Header
				if err := json.Unmarshal(steps[0], &h); err != nil {
					return "bad-replay", err.Error()
				}
				if impls[h.Impl] == nil {
					return "", ""
				}
				m := newMachine(h)
				for _, raw := range steps[1:] {
					var s Step
					if err := json.Unmarshal(raw, &s); err != nil {
						return "bad-replay", err.Error()
					}
					if sig, msg := m.step(s); sig != "" {
						return sig, msg
					}
				}
				return "", ""
			})
		})
	}
}

func knownSig(m *machine, s Step) string { return "" }
func registerProbes()                    {}
