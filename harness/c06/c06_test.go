// C06: mount.FS routes every path to the longest matching mount point, and only there.
package c06

import (
	"encoding/json"
	"errors"
	"fmt"
	"os"
	"reflect"
	"sort"
	"strings"
	"sync"
	"testing"
	"time"

	"github.com/hack-pad/hackpadfs"
	"github.com/hack-pad/hackpadfs/mem"
	"github.com/hack-pad/hackpadfs/mount"
	"pgregory.net/rapid"

	"verifharness/internal/gen"
	"verifharness/internal/masks"
	"verifharness/internal/ops"
	"verifharness/internal/subj"
	"verifharness/internal/vf"
)

func TestMain(m *testing.M) {
	registerProbes()
	vf.Main(m)
}

func must(err error) {
	if err != nil {
		panic(err)
	}
}

var names = []string{"a", "ab", "b", "c"}
var candidatePoints = []string{"a", "ab", "b", "a/b", "a/b/c", "ab/a"}

// world: a mount.FS with its constituents. parts[0] is the root FS, parts[i+1] the FS mounted at points[i].
type world struct {
	mfs    *mount.FS
	top    hackpadfs.FS // where operations enter: mfs, or an outer mount.FS whose root is mfs
	parts  []hackpadfs.FS
	points []string
}

func depth(p string) int { return strings.Count(p, "/") + 1 }

// lmem is an in-memory FS that also answers Lstat (it has no links, so Lstat is Stat): a constituent that implements
// hackpadfs.LstatFS, as os.FS does, so that the Lstat helper's delegation through mount points has something to reach.
type lmem struct{ *mem.FS }

func (l lmem) Lstat(name string) (hackpadfs.FileInfo, error) { return l.FS.Stat(name) }

func newPart(lstat bool) hackpadfs.FS {
	if lstat {
		return lmem{subj.NewMem()}
	}
	return subj.NewMem()
}

func buildWorld(points []string, lstat bool, bind int) *world {
	pts := append([]string{}, points...)
	sort.Slice(pts, func(i, j int) bool {
		if depth(pts[i]) != depth(pts[j]) {
			return depth(pts[i]) < depth(pts[j])
		}
		return pts[i] < pts[j]
	})
	root := newPart(lstat)
	mfs, err := mount.NewFS(root)
	must(err)
	w := &world{mfs: mfs, parts: []hackpadfs.FS{root}}
	for i, p := range pts {
		must(hackpadfs.MkdirAll(mfs, p, 0o755)) // created in whichever FS the current routing selects
		m := newPart(lstat)
		if bind > 0 && i == len(pts)-1 {
			// a bind mount: the last point shows a file system that is already part of the composition (the root itself
			// for bind == 1): routing is decided by the mount point, never by which file system sits there
			m = w.parts[(bind-1)%len(w.parts)]
		}
		must(mfs.AddMount(p, m))
		w.parts = append(w.parts, m)
		w.points = append(w.points, p)
		_ = i
	}
	for idx, part := range w.parts {
		seed(part, idx)
	}
	return w
}

// seed gives every constituent a distinguishable file under the first alphabet name that is free there.
func seed(fs hackpadfs.FS, idx int) {
	for _, n := range []string{"c", "b", "a", "ab"} {
		if _, err := hackpadfs.Stat(fs, n); err != nil {
			must(hackpadfs.WriteFullFile(fs, n, []byte(fmt.Sprintf("seed-%d", idx)), hackpadfs.FileMode(0o600+idx)))
			return
		}
	}
}

// route is the independent reference router: longest whole-element prefix that is a mount point.
func (w *world) route(p string) (idx int, rest string) {
	if p == "." {
		return 0, "."
	}
	els := strings.Split(p, "/")
	for n := len(els); n >= 1; n-- {
		prefix := strings.Join(els[:n], "/")
		for i, mp := range w.points {
			if mp == prefix {
				rest = strings.Join(els[n:], "/")
				if rest == "" {
					rest = "."
				}
				return i + 1, rest
			}
		}
	}
	return 0, p
}

func (w *world) pointOf(idx int) string {
	if idx == 0 {
		return "."
	}
	return w.points[idx-1]
}

func snapAll(parts []hackpadfs.FS) ([]ops.Snap, string) {
	var out []ops.Snap
	for _, p := range parts {
		s, prob := ops.SnapFS(p)
		if prob != "" {
			return nil, prob
		}
		out = append(out, s)
	}
	return out, ""
}

func diffAll(a, b []ops.Snap, an, bn string) string {
	for i := range a {
		if d := ops.Diff(a[i], b[i], an, bn); d != "" {
			return fmt.Sprintf("constituent %d: %s", i, d)
		}
	}
	return ""
}

func joinPoint(point, p string) string {
	if point == "." {
		return p
	}
	if p == "." {
		return point
	}
	return point + "/" + p
}

func errPaths(err error) []string {
	switch e := err.(type) {
	case *hackpadfs.PathError:
		return []string{e.Path}
	case *hackpadfs.LinkError:
		return []string{e.Old, e.New}
	}
	return nil
}

// Header is the first replay step.
type Header struct {
	Points []string `json:"points"`
	// Stacked: the mount.FS is itself the root of a second, mount-less mount.FS and every operation enters through that
	// outer layer: the helpers' MountFS delegation must keep dispatching (not fall back to the generic walk) layer by layer.
	Stacked bool `json:"stacked,omitempty"`
	// LstatParts: every constituent also implements hackpadfs.LstatFS
	LstatParts bool `json:"lstat_parts,omitempty"`
	// Bind: > 0 = the last mount point is a bind mount of constituent (Bind-1) mod n (1 = the root file system)
	Bind int `json:"bind,omitempty"`
}

type machine struct {
	w1, w2     *world
	nontrivial bool
}

func newMachine(h Header) *machine {
	m := &machine{w1: buildWorld(h.Points, h.LstatParts, h.Bind), w2: buildWorld(h.Points, h.LstatParts, h.Bind)}
	for _, w := range []*world{m.w1, m.w2} {
		w.top = w.mfs
		if h.Stacked {
			outer, err := mount.NewFS(w.mfs)
			must(err)
			w.top = outer
		}
	}
	return m
}

func compareRes(base string, op ops.Op, r1, r2 ops.Res, point1, point2 string) (string, string) {
	if r1.Hung || r1.Panic != "" || r2.Hung || r2.Panic != "" {
		return base + ":crash", fmt.Sprintf("%v: through mount %v; direct %v", op, r1, r2)
	}
	if r1.OK() != r2.OK() {
		return base + ":success-differs", fmt.Sprintf("%v: through mount %v; direct on the selected FS %v", op, r1, r2)
	}
	if r1.OK() {
		if r1.Info != nil && r2.Info != nil {
			// the two worlds were built at different wall-clock instants: modification times are not comparable
			a, b := *r1.Info, *r2.Info
			a.Mtime, b.Mtime = 0, 0
			r1.Info, r2.Info = &a, &b
		}
		if !reflect.DeepEqual(r1.Data, r2.Data) || !reflect.DeepEqual(r1.Ents, r2.Ents) || !reflect.DeepEqual(r1.Info, r2.Info) {
			return base + ":data-differs", fmt.Sprintf("%v: through mount %v; direct %v", op, r1, r2)
		}
		return "", ""
	}
	if c1, c2 := ops.ErrClass(r1.Err), ops.ErrClass(r2.Err); c1 != c2 {
		return base + ":error-class-differs", fmt.Sprintf("%v: through mount %v [%s]; direct %v [%s]", op, r1.Err, c1, r2.Err, c2)
	}
	return "", ""
}

// step applies op through the mount FS in world 1 and directly on the routed FS in world 2.
func (m *machine) step(op ops.Op) (string, string) {
	base := "C06 " + op.K
	before1, prob := snapAll(m.w1.parts)
	if prob != "" {
		return base + ":snapshot", prob
	}
	// routing itself, under several iteration orders of the internal table (sync.Map ranges in random order)
	for _, p := range []string{op.P, op.P2} {
		if p == "" {
			continue
		}
		wi, wrest := m.w1.route(p)
		for k := 0; k < 8; k++ {
			gotFS, gotRest := m.w1.mfs.Mount(p)
			if gotFS != m.w1.parts[wi] || gotRest != wrest {
				gi := -1
				for i, c := range m.w1.parts {
					if c == gotFS {
						gi = i
					}
				}
				return base + ":mount-routing", fmt.Sprintf("Mount(%q) with points %v = (constituent %d, %q), want (constituent %d, %q)", p, m.w1.points, gi, gotRest, wi, wrest)
			}
		}
	}
	i1, rest1 := m.w1.route(op.P)
	if i1 != 0 || len(m.w1.points) > 0 && strings.Contains(op.P, "/") {
		// counted below through the prefix rule
	}
	r1 := ops.ApplyFS(m.w1.top, op)
	if op.K == "rename" {
		i2, rest2 := m.w1.route(op.P2)
		if i1 != i2 {
			return m.crossRename(op, r1, before1, i1, rest1, i2, rest2)
		}
		direct := op
		direct.P, direct.P2 = rest1, rest2
		r2 := ops.ApplyFS(m.w2.parts[i1], direct)
		if sig, msg := compareRes(base, op, r1, r2, m.w1.pointOf(i1), ""); sig != "" {
			return sig, msg
		}
	} else {
		direct := op
		direct.P = rest1
		r2 := ops.ApplyFS(m.w2.parts[i1], direct)
		if sig, msg := compareRes(base, op, r1, r2, m.w1.pointOf(i1), ""); sig != "" {
			return sig, msg
		}
		if !r1.OK() && !(op.K == "removeall" || op.K == "mkdirall") && r1.Stage != "write:" && r1.Stage != "close:" {
			p1, p2 := errPaths(r1.Err), errPaths(r2.Err)
			if len(p1) == 1 && len(p2) == 1 && p1[0] != joinPoint(m.w1.pointOf(i1), p2[0]) && !errors.Is(r1.Err, hackpadfs.ErrNotImplemented) {
				return base + ":error-path", fmt.Sprintf("%v names %q through the mount; the selected FS names %q (mount point %q)", op, p1[0], p2[0], m.w1.pointOf(i1))
			}
		}
	}
	a1, prob1 := snapAll(m.w1.parts)
	a2, prob2 := snapAll(m.w2.parts)
	if prob1+prob2 != "" {
		return base + ":snapshot", prob1 + prob2
	}
	if d := diffAll(a1, a2, "through-mount", "direct"); d != "" {
		return base + ":state-differs", fmt.Sprintf("after %v (points %v, %v): %s", op, m.w1.points, r1, d)
	}
	return "", ""
}

// crossRename judges a rename whose two names route to different file systems, on world 1 alone
// (world 2 is then brought to the same state so the history can continue).
func (m *machine) crossRename(op ops.Op, r1 ops.Res, before []ops.Snap, i1 int, rest1 string, i2 int, rest2 string) (string, string) {
	base := "C06 rename-cross"
	m.nontrivial = true
	after, prob := snapAll(m.w1.parts)
	if prob != "" {
		return base + ":snapshot", prob
	}
	if r1.Hung || r1.Panic != "" {
		return base + ":crash", fmt.Sprintf("%v: %v", op, r1)
	}
	src, srcOK := before[i1][rest1]
	if !r1.OK() {
		if d := diffAll(before, after, "before", "after"); d != "" {
			return base + ":failed-but-changed", fmt.Sprintf("%v failed (%v) but changed state: %s", op, r1.Err, d)
		}
		if srcOK && src.Kind == 'd' && !errors.Is(r1.Err, hackpadfs.ErrNotImplemented) {
			if _, dstExists := before[i2][rest2]; !dstExists {
				return base + ":dir-not-notimplemented", fmt.Sprintf("%v of a directory across mounts: error %v does not match ErrNotImplemented", op, r1.Err)
			}
		}
		return "", ""
	}
	// success: only for a regular file; destination = same bytes and mode, source gone, nothing else touched
	if !srcOK || src.Kind != 'f' {
		return base + ":succeeded-without-regular-source", fmt.Sprintf("%v succeeded but the source was %v", op, src)
	}
	want := make([]ops.Snap, len(before))
	for i := range before {
		want[i] = ops.Snap{}
		for k, v := range before[i] {
			want[i][k] = v
		}
	}
	// (with a bind mount one file system is several constituents: what changes in it changes in each of them)
	for j := range want {
		if m.w1.parts[j] == m.w1.parts[i1] {
			delete(want[j], rest1)
		}
	}
	for j := range want {
		if m.w1.parts[j] == m.w1.parts[i2] {
			want[j][rest2] = src
		}
	}
	if d := diffAll(want, after, "expected", "actual"); d != "" {
		return base + ":wrong-result", fmt.Sprintf("after %v (source %v): %s", op, src, d)
	}
	// bring world 2 to the same state
	must(hackpadfs.Remove(m.w2.parts[i1], rest1))
	must(hackpadfs.WriteFullFile(m.w2.parts[i2], rest2, []byte(src.Data), hackpadfs.FileMode(src.Perm)))
	must(hackpadfs.Chmod(m.w2.parts[i2], rest2, hackpadfs.FileMode(src.Perm)))
	return "", ""
}

func genPoints(t *rapid.T) []string {
	n := rapid.IntRange(0, 4).Draw(t, "npoints")
	set := map[string]bool{}
	for i := 0; i < n; i++ {
		set[rapid.SampledFrom(candidatePoints).Draw(t, "point")] = true
	}
	var pts []string
	for p := range set {
		pts = append(pts, p)
	}
	sort.Strings(pts)
	return pts
}

func prefixRelated(points []string) bool {
	for _, a := range points {
		for _, b := range points {
			if a != b && strings.HasPrefix(b, a) {
				return true
			}
		}
	}
	return false
}

func run(t *testing.T) {
	vf.Check(t, "route", func(rt *rapid.T, rec *vf.Rec) {
		h := Header{Points: genPoints(rt), Stacked: rapid.IntRange(0, 3).Draw(rt, "stacked") == 0}
		h.LstatParts = rapid.IntRange(0, 2).Draw(rt, "lstatparts") == 0
		if len(h.Points) > 0 && rapid.IntRange(0, 3).Draw(rt, "bindmount") == 0 {
			h.Bind = rapid.SampledFrom([]int{1, 1, 2, 3}).Draw(rt, "bind")
			rec.Class("bind-mount")
		}
		rec.Step(h)
		if h.Stacked {
			rec.Class("stacked-mount-layers")
		}
		rec.Class(fmt.Sprintf("points:%d", len(h.Points)))
		m := newMachine(h)
		related := prefixRelated(h.Points)
		if related {
			rec.Class("prefix-related-points")
		}
		rt.Repeat(map[string]func(*rapid.T){
			"step": func(rt *rapid.T) {
				snap, _ := ops.SnapFS(m.w1.top)
				if snap == nil {
					snap = ops.Snap{".": ops.Node{Kind: 'd'}}
				}
				tr := gen.TreeOf(snap)
				if len(tr.Dirs) == 0 {
					tr.Dirs = []string{"."}
				}
				op := gen.Op(rt, tr, names, 4, false)
				if op.K == "chmod" && rapid.IntRange(0, 2).Draw(rt, "special") == 0 {
					op.Perm |= rapid.SampledFrom(ops.SpecialBits).Draw(rt, "specialbit") // set-uid / set-gid / sticky travel with a mode too
				}
				if rapid.IntRange(0, 5).Draw(rt, "asopen") == 0 {
					op = ops.Op{K: "open", P: op.P}
				}
				if h.LstatParts && rapid.IntRange(0, 3).Draw(rt, "aslstat") == 0 {
					op = ops.Op{K: "lstat", P: op.P}
				}
				if h.Bind > 0 && op.K == "rename" {
					i1, _ := m.w1.route(op.P)
					i2, _ := m.w1.route(op.P2)
					if i1 != i2 && m.w1.parts[i1] == m.w1.parts[i2] {
						rt.Skip("rename between two mount points of one file system: judged per constituent, which are one here")
					}
				}
				if k := knownSig(m, op); k != "" {
					rec.Excluded(k)
					rt.Skip("known finding " + k)
				}
				rec.Step(op)
				rec.Class("op:" + op.K)
				if related {
					for _, mp := range h.Points {
						if strings.HasPrefix(op.P, mp+"/") && depth(mp) >= 1 {
							for _, shorter := range h.Points {
								if shorter != mp && strings.HasPrefix(mp, shorter) {
									m.nontrivial = true // a path below the longer of two prefix-related mount points
								}
							}
						}
					}
				}
				if sig, msg := m.step(op); sig != "" {
					rec.Failf(rt, sig, "%s", msg)
				}
			},
		})
		if m.nontrivial {
			rec.NonTrivial()
		}
	})
}

func TestRoute(t *testing.T) { run(t) }

// ------------------------------------------------------------------ AddMount vs model

type AddStep struct {
	K string `json:"k"` // "mkdir", "file", "add"
	P string `json:"p"`
}

func addStep(mfs *mount.FS, model map[string]bool, s AddStep) (string, string) {
	switch s.K {
	case "mkdir":
		_ = hackpadfs.MkdirAll(mfs, s.P, 0o755)
	case "file":
		_ = hackpadfs.WriteFullFile(mfs, s.P, []byte("x"), 0o644)
	case "add":
		isDir := false
		if hackpadfs.ValidPath(s.P) {
			if fi, err := hackpadfs.Stat(mfs, s.P); err == nil && fi.IsDir() {
				isDir = true
			}
		}
		want := hackpadfs.ValidPath(s.P) && s.P != "." && isDir && !model[s.P]
		var err error
		pan, hung := vf.Guard(func() { err = mfs.AddMount(s.P, subj.NewMem()) })
		if pan != "" || hung {
			return "C06 addmount:crash", fmt.Sprintf("AddMount(%q) %s hung=%v", s.P, pan, hung)
		}
		if (err == nil) != want {
			return "C06 addmount:wrong-outcome", fmt.Sprintf("AddMount(%q) = %v with mounts %v (valid=%v dir=%v already=%v)", s.P, err, keys(model), hackpadfs.ValidPath(s.P), isDir, model[s.P])
		}
		if err == nil {
			model[s.P] = true
		}
	}
	var got []string
	for _, p := range mfs.MountPoints() {
		got = append(got, p.Path)
	}
	sort.Strings(got)
	if !reflect.DeepEqual(got, keys(model)) && !(len(got) == 0 && len(model) == 0) {
		return "C06 addmount:mountpoints", fmt.Sprintf("MountPoints() = %v, model %v", got, keys(model))
	}
	return "", ""
}

func keys(m map[string]bool) []string {
	var k []string
	for p := range m {
		k = append(k, p)
	}
	sort.Strings(k)
	return k
}

func TestAddMount(t *testing.T) {
	vf.Check(t, "addmount", func(rt *rapid.T, rec *vf.Rec) {
		mfs, err := mount.NewFS(subj.NewMem())
		must(err)
		model := map[string]bool{}
		adds := 0
		refusedExisting := false
		rt.Repeat(map[string]func(*rapid.T){
			"step": func(rt *rapid.T) {
				s := AddStep{K: rapid.SampledFrom([]string{"mkdir", "mkdir", "file", "add", "add", "add"}).Draw(rt, "k")}
				s.P = gen.Random(rt, names, 3, true, "p")
				if s.K == "add" {
					switch rapid.IntRange(0, 9).Draw(rt, "addmode") {
					case 0:
						s.P = rapid.SampledFrom([]string{"", ".", "/a", "a/", "a//b", "a/..", "../a"}).Draw(rt, "bad")
					case 1, 2:
						if len(model) > 0 {
							s.P = rapid.SampledFrom(keys(model)).Draw(rt, "again")
							refusedExisting = true
						}
					}
					adds++
				}
				rec.Step(s)
				if sig, msg := addStep(mfs, model, s); sig != "" {
					rec.Failf(rt, sig, "%s", msg)
				}
			},
		})
		if adds >= 2 && (len(model) >= 2 || refusedExisting) {
			rec.NonTrivial()
		}
	})
}

// ------------------------------------------------------------------ concurrent AddMount (harness-owned window)

// gateFS wraps the root FS handed to mount.NewFS: addMount calls Open on it between its first
// "already mounted?" check and LoadOrStore, so holding the first Open until the other goroutines have
// passed the first check forces the interesting window.
type gateFS struct {
	hackpadfs.FS
	mu      sync.Mutex
	arrived int
	release chan struct{}
	hold    bool
}

func (g *gateFS) Open(name string) (hackpadfs.File, error) {
	g.mu.Lock()
	g.arrived++
	first := g.arrived == 1 && g.hold
	g.mu.Unlock()
	if first {
		select {
		case <-g.release:
		case <-time.After(2 * time.Second):
		}
	}
	return g.FS.Open(name)
}

type ConcCase struct {
	N     int  `json:"n"`
	Hold  bool `json:"hold"`
	Delay int  `json:"delay_us"`
}

func concurrentAdd(c ConcCase) (string, string) {
	root := subj.NewMem()
	must(root.Mkdir("m", 0o755))
	g := &gateFS{FS: root, release: make(chan struct{}), hold: c.Hold}
	mfs, err := mount.NewFS(g)
	must(err)
	errs := make([]error, c.N)
	cands := make([]*mem.FS, c.N) // every caller brings its own file system
	var wg sync.WaitGroup
	start := make(chan struct{})
	for i := 0; i < c.N; i++ {
		i := i
		cands[i] = subj.NewMem()
		must(hackpadfs.WriteFullFile(cands[i], "who", []byte(fmt.Sprint(i)), 0o644))
		wg.Add(1)
		go func() {
			defer wg.Done()
			<-start
			errs[i] = mfs.AddMount("m", cands[i])
		}()
	}
	close(start)
	if c.Hold {
		// let the others run into the first check / the mount mutex, then release the holder
		time.Sleep(time.Duration(c.Delay) * time.Microsecond)
		close(g.release)
	}
	done := make(chan struct{})
	go func() { wg.Wait(); close(done) }()
	select {
	case <-done:
	case <-time.After(vf.WatchdogDur()):
		return "C06 addmount-concurrent:hang", "concurrent AddMount calls did not return"
	}
	ok := 0
	for _, e := range errs {
		if e == nil {
			ok++
		} else if !errors.Is(e, hackpadfs.ErrExist) {
			return "C06 addmount-concurrent:wrong-error", fmt.Sprintf("loser error %v does not match ErrExist", e)
		}
	}
	if ok != 1 {
		return "C06 addmount-concurrent:winners", fmt.Sprintf("%d of %d concurrent AddMount(\"m\") calls succeeded, want exactly 1", ok, c.N)
	}
	if pts := mfs.MountPoints(); len(pts) != 1 || pts[0].Path != "m" {
		return "C06 addmount-concurrent:mountpoints", fmt.Sprintf("MountPoints() = %v", pts)
	}
	// the file system mounted at the point is the winner's: a caller that was told ErrExist has mounted nothing
	winner := -1
	for i, e := range errs {
		if e == nil {
			winner = i
		}
	}
	b, rerr := hackpadfs.ReadFile(mfs, "m/who")
	if rerr != nil || string(b) != fmt.Sprint(winner) {
		return "C06 addmount-concurrent:loser-mounted", fmt.Sprintf("AddMount call %d succeeded, the others got ErrExist, but m/who reads %q, %v: operations are routed to a file system whose AddMount failed", winner, b, rerr)
	}
	if mounted, sub := mfs.Mount("m/who"); mounted != hackpadfs.FS(cands[winner]) || sub != "who" {
		return "C06 addmount-concurrent:loser-mounted", fmt.Sprintf("Mount(\"m/who\") = (%p, %q), the winner's file system is %p", mounted, sub, cands[winner])
	}
	if err := hackpadfs.WriteFullFile(mfs, "m/new", []byte("x"), 0o644); err != nil {
		return "C06 addmount-concurrent:write", err.Error()
	}
	for i, cfs := range cands {
		_, serr := hackpadfs.Stat(cfs, "new")
		if (serr == nil) != (i == winner) {
			return "C06 addmount-concurrent:loser-mounted", fmt.Sprintf("a write to m/new after the race: candidate %d (winner %d) has it: %v", i, winner, serr == nil)
		}
	}
	return "", ""
}

func TestConcurrentAddMount(t *testing.T) {
	vf.Check(t, "concurrent", func(rt *rapid.T, rec *vf.Rec) {
		c := ConcCase{N: rapid.IntRange(2, 8).Draw(rt, "n"), Hold: rapid.IntRange(0, 3).Draw(rt, "hold") != 0, Delay: rapid.IntRange(0, 400).Draw(rt, "delay")}
		rec.Step(c)
		rec.NonTrivial()
		for rep := 0; rep < 5; rep++ {
			if sig, msg := concurrentAdd(c); sig != "" {
				rec.Failf(rt, sig, "%s", msg)
			}
		}
	})
}

// ------------------------------------------------------------------ replay

func TestReplayAll(t *testing.T) {
	t.Run("route", func(t *testing.T) {
		vf.Replay(t, "route", func(steps []json.RawMessage) (string, string) {
			if len(steps) == 0 {
				return "", ""
			}
			var h Header
			if err := json.Unmarshal(steps[0], &h); err != nil {
				return "bad-replay", err.Error()
			}
			m := newMachine(h)
			for _, raw := range steps[1:] {
				var op ops.Op
				if err := json.Unmarshal(raw, &op); err != nil {
					return "bad-replay", err.Error()
				}
				if sig, msg := m.step(op); sig != "" {
					return sig, msg
				}
			}
			return "", ""
		})
	})
	t.Run("crossfault", func(t *testing.T) {
		vf.Replay(t, "crossfault", func(steps []json.RawMessage) (string, string) {
			for _, raw := range steps {
				var c CrossCase
				if err := json.Unmarshal(raw, &c); err != nil {
					return "bad-replay", err.Error()
				}
				if sig, msg, _, _ := checkCross(c); sig != "" {
					return sig, msg
				}
			}
			return "", ""
		})
	})
	t.Run("addmount", func(t *testing.T) {
		vf.Replay(t, "addmount", func(steps []json.RawMessage) (string, string) {
			mfs, err := mount.NewFS(subj.NewMem())
			must(err)
			model := map[string]bool{}
			for _, raw := range steps {
				var s AddStep
				if err := json.Unmarshal(raw, &s); err != nil {
					return "bad-replay", err.Error()
				}
				if sig, msg := addStep(mfs, model, s); sig != "" {
					return sig, msg
				}
			}
			return "", ""
		})
	})
	t.Run("concurrent", func(t *testing.T) {
		vf.Replay(t, "concurrent", func(steps []json.RawMessage) (string, string) {
			for _, raw := range steps {
				var c ConcCase
				if err := json.Unmarshal(raw, &c); err != nil {
					return "bad-replay", err.Error()
				}
				for rep := 0; rep < 200; rep++ {
					if sig, msg := concurrentAdd(c); sig != "" {
						return sig, msg
					}
				}
			}
			return "", ""
		})
	})
}

func knownSig(m *machine, op ops.Op) string {
	// removing the directory underneath a mount point (C03:removeall-above-mountpoint) is legitimate routing; nothing excluded here
	return ""
}

func registerProbes() { registerCrossProbe() }

var _ = os.O_RDONLY

// ------------------------------------------------------------------ cross-mount rename under faults

// CrossCase: a regular file in mount "a" is renamed to a path in mount "b" whose FS fails its i-th primitive call.
type CrossCase struct {
	Size       int  `json:"size"`
	DestExists bool `json:"dest_exists"`
	FailAt     int  `json:"fail_at"` // 0 = fault-free
	FailSource bool `json:"fail_source"`
}

func crossWorld(c CrossCase) (mfs *mount.FS, src, dst hackpadfs.FS, srcHooks, dstHooks *masks.Hooks) {
	root := subj.NewMem()
	must(root.Mkdir("a", 0o755))
	must(root.Mkdir("b", 0o755))
	src, dst = subj.NewMem(), subj.NewMem()
	data := make([]byte, c.Size)
	for i := range data {
		data[i] = byte('a' + i%26)
	}
	must(hackpadfs.WriteFullFile(src, "f", data, 0o600))
	if c.DestExists {
		must(hackpadfs.WriteFullFile(dst, "g", []byte("old destination contents"), 0o644))
	}
	srcHooks, dstHooks = &masks.Hooks{}, &masks.Hooks{}
	full := []string{"OpenFileFS", "MkdirFS", "RemoveFS", "RenameFS"}
	m, err := mount.NewFS(root)
	must(err)
	must(m.AddMount("a", masks.New(src, full, srcHooks)))
	must(m.AddMount("b", masks.New(dst, full, dstHooks)))
	return m, src, dst, srcHooks, dstHooks
}

func checkCross(c CrossCase) (string, string, int, int) {
	base := "C06 cross-fault"
	mfs, src, dst, sh, dh := crossWorld(c)
	if c.FailSource {
		sh.FailAt = c.FailAt
	} else {
		dh.FailAt = c.FailAt
	}
	srcBefore, _ := ops.SnapFS(src)
	dstBefore, _ := ops.SnapFS(dst)
	var err error
	pan, hung := vf.Guard(func() { err = mfs.Rename("a/f", "b/g") })
	if pan != "" || hung {
		return base + ":crash", fmt.Sprintf("%+v: %s hung=%v", c, pan, hung), sh.Calls, dh.Calls
	}
	srcAfter, _ := ops.SnapFS(src)
	dstAfter, _ := ops.SnapFS(dst)
	fired := sh.Fired + dh.Fired
	if err != nil {
		if d := ops.Diff(srcBefore, srcAfter, "before", "after"); d != "" {
			return base + ":failed-but-source-changed:" + strings.ReplaceAll(fired, " ", ""), fmt.Sprintf("%+v: Rename failed (%v, fault at %q) but the source mount changed: %s", c, err, fired, d), sh.Calls, dh.Calls
		}
		if d := ops.Diff(dstBefore, dstAfter, "before", "after"); d != "" {
			return base + ":failed-but-destination-changed:" + strings.ReplaceAll(fired, " ", ""), fmt.Sprintf("%+v: Rename failed (%v, fault at %q) but the destination mount changed: %s", c, err, fired, d), sh.Calls, dh.Calls
		}
		return "", "", sh.Calls, dh.Calls
	}
	want := srcBefore["f"]
	if _, still := srcAfter["f"]; still {
		return base + ":succeeded-but-source-remains", fmt.Sprintf("%+v: Rename returned nil (fault at %q) but the source still exists", c, fired), sh.Calls, dh.Calls
	}
	if got := dstAfter["g"]; got != want {
		return base + ":succeeded-but-destination-wrong", fmt.Sprintf("%+v: Rename returned nil (fault at %q): destination is %v, source was %v", c, fired, got, want), sh.Calls, dh.Calls
	}
	return "", "", sh.Calls, dh.Calls
}

// crossLogs returns the primitive calls of the fault-free rename on the source and destination mounts.
func crossLogs(c CrossCase) (srcLog, dstLog []string) {
	mfs, _, _, sh, dh := crossWorld(c)
	_ = mfs.Rename("a/f", "b/g")
	return sh.Log, dh.Log
}

func TestCrossFault(t *testing.T) {
	vf.Check(t, "crossfault", func(rt *rapid.T, rec *vf.Rec) {
		c := CrossCase{Size: rapid.SampledFrom([]int{0, 1, 100, 5000, 40000}).Draw(rt, "size"), DestExists: rapid.Bool().Draw(rt, "destexists")}
		rec.Step(c)
		sig, msg, sCalls, dCalls := checkCross(c)
		if sig != "" {
			rec.Failf(rt, sig, "%s", msg)
		}
		_, _, _, shDry, dhDry := crossWorld(c)
		_ = shDry
		_ = dhDry
		sLog, dLog := crossLogs(c)
		rec.NonTrivial()
		rec.Count("fault-sites", sCalls+dCalls)
		for i := 1; i <= dCalls; i++ {
			fc := c
			fc.FailAt = i
			if k := knownCross(fc, dLog[i-1]); k != "" {
				rec.Excluded(k)
				continue
			}
			if sig, msg, _, _ := checkCross(fc); sig != "" {
				rec.Step(fc)
				rec.Failf(rt, sig, "%s", msg)
			}
		}
		for i := 1; i <= sCalls; i++ {
			fc := c
			fc.FailAt, fc.FailSource = i, true
			if k := knownCross(fc, map[bool]string{true: "Open", false: sLog[i-1]}[sLog[i-1] == "Open" || sLog[i-1] == "File.Stat"]); k != "" {
				rec.Excluded(k)
				continue
			}
			if sig, msg, _, _ := checkCross(fc); sig != "" {
				rec.Step(fc)
				rec.Failf(rt, sig, "%s", msg)
			}
		}
	})
}

const knownCrossSig = "C06:cross-rename-fault-loses-existing-destination"

// knownCross: with an existing destination, any failure after the destination was opened (and thereby truncated) cannot be
// undone by the copy-then-remove implementation.
func knownCross(c CrossCase, site string) string {
	if !c.DestExists || !vf.Known(knownCrossSig) {
		return ""
	}
	switch site {
	case "OpenFile", "Open", "Mkdir": // before the destination was truncated
		return ""
	}
	return knownCrossSig
}

func registerCrossProbe() {
	vf.RegisterProbe(knownCrossSig, func() (bool, string) {
		c := CrossCase{Size: 100, DestExists: true}
		_, _, _, d := checkCross(c)
		for i := 1; i <= d; i++ {
			fc := c
			fc.FailAt = i
			if sig, msg, _, _ := checkCross(fc); strings.Contains(sig, "failed-but-destination-changed") {
				return true, msg
			}
		}
		return false, "every destination fault leaves the existing destination intact"
	})
}
