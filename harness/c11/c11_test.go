// C11: a failed or concurrent cache fill never leaves or serves a partial file.
package c11

import (
	"bytes"
	"encoding/json"
	"errors"
	"fmt"
	"io"
	"sync"
	"testing"
	"time"

	"github.com/hack-pad/hackpadfs"
	"github.com/hack-pad/hackpadfs/cache"
	"pgregory.net/rapid"

	"verifharness/internal/masks"
	"verifharness/internal/subj"
	"verifharness/internal/vf"
)

func TestMain(m *testing.M) { vf.Main(m) }

func must(err error) {
	if err != nil {
		panic(err)
	}
}

var errSource = errors.New("verif: injected source read failure")

func content(size int) []byte {
	b := make([]byte, size)
	for i := range b {
		b[i] = byte('A' + (i*11+i/512)%26)
	}
	return b
}

// ------------------------------------------------------------------ source wrapper: read faults, gating, concurrency accounting

type source struct {
	inner  hackpadfs.FS
	noSeek bool

	mu        sync.Mutex
	reads     int  // Read calls on file handles so far
	failRead  int  // 1-based index of the Read call to fail (0 = none)
	sticky    bool // a source that broke stays broken: every later Read and the Close of its handles fail too
	fired     bool
	gating    bool
	postGate  bool               // with gating: every Read parks a second time after it has filled the caller's buffer
	short     int                // > 0: a Read returns at most this many bytes (a short read, which io.Reader allows, is not the end)
	seekFails bool               // the source's handles have a Seek method, and it fails (a forward-only stream)
	arrivals  chan chan struct{} // each gated Read sends its release channel
	inFlight  int
	maxFlight int
	openFiles int
}

func (s *source) Open(name string) (hackpadfs.File, error) {
	s.mu.Lock()
	down := s.sticky && s.fired && s.failRead > 0
	s.mu.Unlock()
	if down {
		// the source that broke is still down: it does not even open files
		return nil, &hackpadfs.PathError{Op: "open", Path: name, Err: errSource}
	}
	f, err := s.inner.Open(name)
	if err != nil {
		return nil, err
	}
	sf := &srcFile{File: f, s: s}
	if s.noSeek {
		return noSeek{sf}, nil
	}
	return sf, nil
}

type srcFile struct {
	hackpadfs.File
	s *source
}

func (f *srcFile) Read(p []byte) (int, error) {
	s := f.s
	s.mu.Lock()
	s.reads++
	fail := s.failRead > 0 && (s.reads == s.failRead || (s.sticky && s.reads > s.failRead))
	if fail {
		s.fired = true
	}
	gating := s.gating
	if gating {
		s.inFlight++
		if s.inFlight > s.maxFlight {
			s.maxFlight = s.inFlight
		}
	}
	s.mu.Unlock()
	if gating {
		rel := make(chan struct{})
		s.arrivals <- rel
		<-rel
		s.mu.Lock()
		s.inFlight--
		s.mu.Unlock()
	}
	if fail {
		return 0, errSource
	}
	if s.short > 0 && len(p) > s.short {
		p = p[:s.short]
	}
	n, err := f.File.Read(p)
	if gating && s.postGate {
		// park once more with the bytes in the caller's buffer, before the caller does anything with them
		rel := make(chan struct{})
		s.arrivals <- rel
		<-rel
	}
	return n, err
}

func (f *srcFile) Close() error {
	f.s.mu.Lock()
	broken := f.s.sticky && f.s.fired && f.s.failRead > 0
	f.s.mu.Unlock()
	err := f.File.Close()
	if broken {
		return errSource
	}
	return err
}

func (f *srcFile) Seek(off int64, whence int) (int64, error) {
	if f.s.seekFails {
		return 0, &hackpadfs.PathError{Op: "seek", Path: "?", Err: errSource}
	}
	return hackpadfs.SeekFile(f.File, off, whence)
}

type noSeek struct{ f *srcFile }

func (n noSeek) Stat() (hackpadfs.FileInfo, error) { return n.f.Stat() }
func (n noSeek) Read(p []byte) (int, error)        { return n.f.Read(p) }
func (n noSeek) Close() error                      { return n.f.Close() }

// ------------------------------------------------------------------ environment

type Case struct {
	Size    int    `json:"size"`
	Name    string `json:"name"` // "f" or "d/e/f"
	Store   string `json:"store"`
	NoSeek  bool   `json:"noseek"`
	Reopens int    `json:"reopens"`
	// Sticky: whatever breaks stays broken until it is repaired before the re-opens (every later call of the source handle
	// incl. its Close, or every later store call), instead of one call failing once
	Sticky bool `json:"sticky,omitempty"`
	// BrokenReopens: with Sticky, how many further opens are attempted while everything is still broken, before the repair
	BrokenReopens int `json:"broken_reopens,omitempty"`
	// Short: the source's reads return at most this many bytes each (0 = as many as asked)
	Short int `json:"short,omitempty"`
	// SeekFails: the source's handles cannot be rewound (their Seek fails with an ordinary error)
	SeekFails bool `json:"seek_fails,omitempty"`
}

type env struct {
	src   *source
	store hackpadfs.FS // the real store behind the mask
	hooks *masks.Hooks
	cfs   *cache.ReadOnlyFS
	want  []byte
}

type writable interface {
	hackpadfs.OpenFileFS
	hackpadfs.MkdirFS
}

func newEnv(c Case) *env {
	inner := subj.NewMem()
	e := &env{want: content(c.Size)}
	if c.Name != "f" {
		must(inner.MkdirAll("d/e", 0o755))
	}
	must(hackpadfs.WriteFullFile(inner, c.Name, e.want, 0o644))
	e.src = &source{inner: inner, noSeek: c.NoSeek, short: c.Short, seekFails: c.SeekFails, arrivals: make(chan chan struct{}, 16)}
	e.store = subj.NewMem()
	e.hooks = &masks.Hooks{}
	set := []string{"OpenFileFS", "MkdirFS"}
	if c.Store == "rw" {
		set = []string{"OpenFileFS", "MkdirFS", "RemoveFS", "RenameFS"}
	}
	m := masks.New(e.store, set, e.hooks)
	var err error
	e.cfs, err = cache.NewReadOnlyFS(e.src, m.(writable), cache.ReadOnlyOptions{})
	must(err)
	return e
}

// openAndRead opens name through the cache and reads it completely.
func (e *env) openAndRead(name string) ([]byte, error) {
	f, err := e.cfs.Open(name)
	if err != nil {
		return nil, err
	}
	if f == nil {
		return nil, errors.New("nil file with nil error")
	}
	defer func() { _ = f.Close() }()
	return io.ReadAll(f)
}

type outcome struct{ sites, fired int }

// checkFaults: dry run, then one run per fault site.
func checkFaults(c Case) (string, string, outcome) {
	var out outcome
	base := "C11 fault"
	dry := newEnv(c)
	got, err := dry.openAndRead(c.Name)
	if err != nil || !bytes.Equal(got, dry.want) {
		return base + ":fault-free", fmt.Sprintf("fault-free open of %d bytes: %d bytes, %v", c.Size, len(got), err), out
	}
	srcReads := dry.src.reads
	storeCalls := dry.hooks.Calls
	type site struct {
		kind string
		idx  int
	}
	var sites []site
	for i := 1; i <= srcReads; i++ {
		sites = append(sites, site{"source-read", i})
	}
	for i := 1; i <= storeCalls; i++ {
		sites = append(sites, site{"store-call", i})
	}
	out.sites = len(sites)
	for _, st := range sites {
		e := newEnv(c)
		if st.kind == "source-read" {
			e.src.failRead = st.idx
			e.src.sticky = c.Sticky
		} else {
			e.hooks.FailAt = st.idx
			e.hooks.Sticky = c.Sticky
		}
		var data []byte
		var oerr error
		pan, hung := vf.Guard(func() { data, oerr = e.openAndRead(c.Name) })
		if pan != "" || hung {
			return base + ":crash", fmt.Sprintf("%s %d failing: %s hung=%v", st.kind, st.idx, pan, hung), out
		}
		fired := e.src.fired || e.hooks.Fired != ""
		what := fmt.Sprintf("%s #%d", st.kind, st.idx)
		if e.hooks.Fired != "" {
			what += " (" + e.hooks.Fired + ")"
		}
		if !fired {
			continue
		}
		out.fired++
		// the fault may fire during Open (the fill) or, for a rewound source handle, during the caller's own reads
		if oerr == nil && !bytes.Equal(data, e.want) {
			return base + ":partial-served-by-faulted-open:" + siteClass(st.kind, e.hooks.Fired), fmt.Sprintf("%s failed; the open returned %d of %d bytes without an error", what, len(data), len(e.want)), out
		}
		if oerr == nil && st.kind == "store-call" && (e.hooks.Fired == "File.Write" || e.hooks.Fired == "File.Close(w)" || e.hooks.Fired == "OpenFile" || e.hooks.Fired == "Mkdir") {
			return base + ":fill-failure-not-reported:" + siteClass(st.kind, e.hooks.Fired), fmt.Sprintf("%s failed while filling the cache but Open reported success", what), out
		}
		// with a sticky fault: opens attempted while it is still broken (they fail, or serve the complete bytes)
		for r := 0; c.Sticky && r < c.BrokenReopens; r++ {
			var d2 []byte
			var e2 error
			pan, hung := vf.Guard(func() { d2, e2 = e.openAndRead(c.Name) })
			if pan != "" || hung {
				return base + ":reopen-crash", fmt.Sprintf("open %d while still broken after %s: %s hung=%v", r, what, pan, hung), out
			}
			if e2 == nil && !bytes.Equal(d2, e.want) {
				return base + ":partial-served-while-broken:" + siteClass(st.kind, e.hooks.Fired), fmt.Sprintf("%s failed and stays broken; open %d served %d of %d bytes without an error", what, r, len(d2), len(e.want)), out
			}
		}
		// later, fault-free opens
		e.src.failRead, e.hooks.FailAt = 0, 0
		e.src.sticky, e.hooks.Sticky = false, false
		for r := 0; r < c.Reopens; r++ {
			var d2 []byte
			var e2 error
			pan, hung := vf.Guard(func() { d2, e2 = e.openAndRead(c.Name) })
			if pan != "" || hung {
				return base + ":reopen-crash", fmt.Sprintf("re-open %d after %s failed: %s hung=%v", r, what, pan, hung), out
			}
			if e2 == nil && !bytes.Equal(d2, e.want) {
				return base + ":partial-served-later:" + siteClass(st.kind, e.hooks.Fired), fmt.Sprintf("%s failed during the first open (%v); re-open %d served %d of %d bytes without an error", what, oerr, r, len(d2), len(e.want)), out
			}
		}
	}
	return "", "", out
}

func siteClass(kind, fired string) string {
	if kind == "source-read" {
		return "source-read"
	}
	return "store-" + fired
}

// ------------------------------------------------------------------ concurrent first opens with the copy paused at every chunk

type ConcCase struct {
	Size    int  `json:"size"`
	Openers int  `json:"openers"`
	NoSeek  bool `json:"noseek"`
	Settle  int  `json:"settle_us"`
	// FailRead: the source fails its FailRead-th read (0 = never) while the other openers are queued behind the copy;
	// Store: "rw" or "min" (a cache store without Remove: a failed copy cannot be cleaned up, only marked)
	FailRead int    `json:"fail_read,omitempty"`
	Store    string `json:"store,omitempty"`
}

func checkConcurrent(c ConcCase) (string, string) {
	base := "C11 concurrent"
	store := c.Store
	if store == "" {
		store = "rw"
	}
	e := newEnv(Case{Size: c.Size, Name: "f", Store: store, NoSeek: c.NoSeek})
	e.src.gating = true
	e.src.failRead = c.FailRead
	type result struct {
		data []byte
		err  error
		rerr error
	}
	results := make([]result, c.Openers)
	var wg sync.WaitGroup
	for i := 0; i < c.Openers; i++ {
		i := i
		wg.Add(1)
		go func() {
			defer wg.Done()
			f, err := e.cfs.Open("f")
			results[i] = result{err: err}
			if err == nil {
				// read at once, while another opener's copy may still be parked: a handle on a half-filled cache file shows now
				results[i].data, results[i].rerr = io.ReadAll(f)
				_ = f.Close()
			}
		}()
	}
	done := make(chan struct{})
	go func() { wg.Wait(); close(done) }()
	deadline := time.After(vf.WatchdogDur())
loop:
	for {
		select {
		case rel := <-e.src.arrivals:
			// the copy is paused at a chunk boundary: give the other openers time to run into whatever they run into
			time.Sleep(time.Duration(c.Settle) * time.Microsecond)
			e.src.mu.Lock()
			mf := e.src.maxFlight
			e.src.mu.Unlock()
			close(rel)
			if mf > 1 {
				// drain so that nothing stays blocked
				go func() {
					for r := range e.src.arrivals {
						close(r)
					}
				}()
				<-done
				return base + ":two-copies-in-progress", fmt.Sprintf("%d reads of the source were in flight at once while %d goroutines opened the same uncached file", mf, c.Openers)
			}
		case <-done:
			break loop
		case <-deadline:
			return base + ":hang", "concurrent opens did not return"
		}
	}
	for i, r := range results {
		if r.err != nil {
			continue
		}
		if r.rerr != nil && c.FailRead > 0 {
			continue // the injected failure surfaced in the caller's own reads: reported, not served silently
		}
		if r.rerr != nil || !bytes.Equal(r.data, e.want) {
			return base + ":partial", fmt.Sprintf("opener %d of %d got %d of %d bytes (%v)", i, c.Openers, len(r.data), len(e.want), r.rerr)
		}
	}
	return "", ""
}

// ------------------------------------------------------------------ legs

var sizes = []int{0, 1, 511, 512, 513, 1024, 1600, 5000}

func TestFaults(t *testing.T) {
	vf.Check(t, "faults", func(rt *rapid.T, rec *vf.Rec) {
		c := Case{
			Size:          rapid.SampledFrom(sizes).Draw(rt, "size"),
			Name:          rapid.SampledFrom([]string{"f", "d/e/f"}).Draw(rt, "name"),
			Store:         rapid.SampledFrom([]string{"min", "rw"}).Draw(rt, "store"),
			NoSeek:        rapid.Bool().Draw(rt, "noseek"),
			Reopens:       rapid.IntRange(1, 3).Draw(rt, "reopens"),
			Sticky:        rapid.IntRange(0, 2).Draw(rt, "sticky") == 0,
			BrokenReopens: rapid.IntRange(0, 2).Draw(rt, "brokenreopens"),
		}
		if !c.NoSeek && rapid.IntRange(0, 4).Draw(rt, "seekfails") == 0 {
			c.SeekFails = true
			rec.Class("source-that-cannot-rewind")
		}
		if c.Size <= 2000 && rapid.IntRange(0, 3).Draw(rt, "shortreads") == 0 {
			c.Short = rapid.SampledFrom([]int{100, 200, 511}).Draw(rt, "short")
			rec.Class("short-reading-source")
		}
		rec.Step(c)
		sig, msg, out := checkFaults(c)
		rec.Count("fault-sites", out.sites)
		rec.Count("faults-fired", out.fired)
		if out.fired >= 2 {
			rec.NonTrivial()
		}
		if sig != "" {
			rec.Failf(rt, sig, "%s", msg)
		}
	})
}

func TestConcurrent(t *testing.T) {
	vf.Check(t, "concurrent", func(rt *rapid.T, rec *vf.Rec) {
		c := ConcCase{Size: rapid.SampledFrom([]int{1, 512, 513, 1600, 5000}).Draw(rt, "size"), Openers: rapid.IntRange(2, 4).Draw(rt, "openers"),
			NoSeek: rapid.Bool().Draw(rt, "noseek"), Settle: rapid.IntRange(0, 400).Draw(rt, "settle")}
		if rapid.IntRange(0, 2).Draw(rt, "withfault") == 0 {
			// a failing copy with other openers queued behind it
			c.FailRead = rapid.IntRange(1, 1+c.Size/512).Draw(rt, "failread")
			c.Store = rapid.SampledFrom([]string{"rw", "min", "min"}).Draw(rt, "store")
			rec.Class("concurrent-with-fault")
		}
		rec.Step(c)
		rec.NonTrivial()
		if sig, msg := checkConcurrent(c); sig != "" {
			rec.Failf(rt, sig, "%s", msg)
		}
	})
}

// ------------------------------------------------------------------ two different files filled at the same time

// TwoCase: two goroutines open two DIFFERENT uncached files at the same time (the path lock is per name, so both copies run);
// every source Read parks before it reads and again after it has filled the copy's buffer, and the harness releases the parked
// reads one at a time in a drawn order, so a read of one copy can land between the other copy's read and its write to the
// store. Oracle: each open serves its own file's complete bytes, so do later opens, and the store's copies equal the source.
type TwoCase struct {
	SizeF  int   `json:"size_f"`
	SizeG  int   `json:"size_g"`
	NoSeek bool  `json:"noseek"`
	Order  []int `json:"order"`
}

func contentG(size int) []byte {
	b := make([]byte, size)
	for i := range b {
		b[i] = byte('a' + (i*7+i/512)%26)
	}
	return b
}

func checkTwoFiles(c TwoCase) (string, string) {
	base := "C11 twofiles"
	e := newEnv(Case{Size: c.SizeF, Name: "f", Store: "rw", NoSeek: c.NoSeek})
	wantG := contentG(c.SizeG)
	must(hackpadfs.WriteFullFile(e.src.inner.(hackpadfs.FS), "g", wantG, 0o644))
	want := map[string][]byte{"f": e.want, "g": wantG}
	e.src.gating, e.src.postGate = true, true
	type result struct {
		name string
		data []byte
		err  error
		rerr error
	}
	names := []string{"f", "g"}
	results := make([]result, len(names))
	finished := make(chan int, len(names))
	for i, name := range names {
		i, name := i, name
		go func() {
			defer func() { finished <- i }()
			f, err := e.cfs.Open(name)
			results[i] = result{name: name, err: err}
			if err == nil {
				results[i].data, results[i].rerr = io.ReadAll(f)
				_ = f.Close()
			}
		}()
	}
	running, step := len(names), 0
	var parked []chan struct{}
	deadline := time.After(vf.WatchdogDur())
	for running > 0 || len(parked) > 0 {
		if running == 0 {
			k := 0
			if step < len(c.Order) {
				k = c.Order[step] % len(parked)
			}
			step++
			close(parked[k])
			parked = append(parked[:k], parked[k+1:]...)
			running++
			continue
		}
		select {
		case rel := <-e.src.arrivals:
			parked = append(parked, rel)
			running--
		case <-finished:
			running--
		case <-deadline:
			for _, r := range parked {
				close(r)
			}
			go func() {
				for r := range e.src.arrivals {
					close(r)
				}
			}()
			return base + ":hang", "two opens of different files did not return"
		}
	}
	for _, r := range results {
		if r.err != nil || r.rerr != nil {
			return base + ":open-failed", fmt.Sprintf("open of %s while %s was being filled too: %v %v (no fault was injected)", r.name, names[1-indexOf(names, r.name)], r.err, r.rerr)
		}
		if !bytes.Equal(r.data, want[r.name]) {
			return base + ":wrong-bytes-served", fmt.Sprintf("first open of %s (%d bytes) while the other file was being filled too served %d bytes, first difference at %d", r.name, len(want[r.name]), len(r.data), firstDiff(r.data, want[r.name]))
		}
	}
	e.src.gating = false
	for _, name := range names {
		got, err := e.openAndRead(name)
		if err != nil || !bytes.Equal(got, want[name]) {
			return base + ":wrong-bytes-served-later", fmt.Sprintf("after both files were filled at the same time a later open of %s (%d bytes) served %d bytes, first difference at %d, err %v", name, len(want[name]), len(got), firstDiff(got, want[name]), err)
		}
		if b, err := hackpadfs.ReadFile(e.store, name); err == nil && !bytes.Equal(b, want[name]) {
			return base + ":store-copy-differs", fmt.Sprintf("the cache store's copy of %s differs from the source (first difference at %d of %d)", name, firstDiff(b, want[name]), len(want[name]))
		}
	}
	return "", ""
}

func indexOf(list []string, s string) int {
	for i, x := range list {
		if x == s {
			return i
		}
	}
	return 0
}

func firstDiff(a, b []byte) int {
	for i := 0; i < len(a) && i < len(b); i++ {
		if a[i] != b[i] {
			return i
		}
	}
	if len(a) != len(b) {
		if len(a) < len(b) {
			return len(a)
		}
		return len(b)
	}
	return -1
}

func TestTwoFiles(t *testing.T) {
	vf.Check(t, "twofiles", func(rt *rapid.T, rec *vf.Rec) {
		sizes := []int{1, 100, 512, 513, 1024, 1600}
		c := TwoCase{SizeF: rapid.SampledFrom(sizes).Draw(rt, "sizef"), SizeG: rapid.SampledFrom(sizes).Draw(rt, "sizeg"),
			NoSeek: rapid.Bool().Draw(rt, "noseek"), Order: rapid.SliceOfN(rapid.IntRange(0, 1), 0, 24).Draw(rt, "order")}
		rec.Step(c)
		rec.NonTrivial()
		if sig, msg := checkTwoFiles(c); sig != "" {
			rec.Failf(rt, sig, "%s", msg)
		}
	})
}

func TestReplayAll(t *testing.T) {
	t.Run("twofiles", func(t *testing.T) {
		vf.Replay(t, "twofiles", func(steps []json.RawMessage) (string, string) {
			for _, raw := range steps {
				var c TwoCase
				if err := json.Unmarshal(raw, &c); err != nil {
					return "bad-replay", err.Error()
				}
				if sig, msg := checkTwoFiles(c); sig != "" {
					return sig, msg
				}
			}
			return "", ""
		})
	})
	t.Run("faults", func(t *testing.T) {
		vf.Replay(t, "faults", func(steps []json.RawMessage) (string, string) {
			for _, raw := range steps {
				var c Case
				if err := json.Unmarshal(raw, &c); err != nil {
					return "bad-replay", err.Error()
				}
				if sig, msg, _ := checkFaults(c); sig != "" {
					return sig, msg
				}
			}
			return "", ""
		})
	})
	t.Run("concurrent", func(t *testing.T) {
		vf.Replay(t, "concurrent", func(steps []json.RawMessage) (string, string) {
			for _, raw := range steps {
				var c ConcCase
				if err := json.Unmarshal(raw, &c); err != nil {
					return "bad-replay", err.Error()
				}
				for rep := 0; rep < 20; rep++ {
					if sig, msg := checkConcurrent(c); sig != "" {
						return sig, msg
					}
				}
			}
			return "", ""
		})
	})
}
