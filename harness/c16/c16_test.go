// C16: directory listings are complete, duplicate-free, ordered, and page correctly.
package c16

import (
	"archive/tar"
	"bytes"
	"context"
	"encoding/json"
	"errors"
	"fmt"
	"io"
	"math"
	"os"
	"sort"
	"testing"
	"time"

	"github.com/hack-pad/hackpadfs"
	"github.com/hack-pad/hackpadfs/cache"
	"github.com/hack-pad/hackpadfs/keyvalue"
	"github.com/hack-pad/hackpadfs/mount"
	htar "github.com/hack-pad/hackpadfs/tar"
	"pgregory.net/rapid"

	"verifharness/internal/kvstore"
	"verifharness/internal/subj"
	"verifharness/internal/vf"
	"verifharness/internal/world"
)

func TestMain(m *testing.M) {
	world.Init()
	registerProbes()
	vf.Main(m, world.Cleanup)
}

func must(err error) {
	if err != nil {
		panic(err)
	}
}

// Child of the directory under test.
type Child struct {
	Name  string `json:"name"`
	IsDir bool   `json:"dir"`
	Size  int    `json:"size"`
	// Special: 0 none, 1 set-uid, 2 set-gid, 3 sticky: set with Chmod after creation. These are mode bits, not part of
	// the entry's kind: Type() of the listing entry must still equal Stat's Mode().Type().
	Special int `json:"special,omitempty"`
}

// Case is the replay format.
type Case struct {
	Kind     string  `json:"kind"`
	Dir      string  `json:"dir"` // "." or "d"
	Children []Child `json:"children"`
	Pages    []int   `json:"pages"`
	// Pre: what happens between opening the handle and reading its first page: "hstat" (Stat on the handle),
	// "add" (a new child appears), "remove" (the first regular child disappears). Nothing changes between pages.
	Pre []string `json:"pre,omitempty"`
}

var kinds = []string{"mem", "kvplain", "mount", "mountnested", "submem", "cache", "tar", "osfs"}

type built struct {
	fs         hackpadfs.FS
	mountChild string // child name that is a mount point ("" if none)
	close      func()
}

func populate(fs hackpadfs.FS, c Case) {
	if c.Dir != "." {
		must(hackpadfs.Mkdir(fs, c.Dir, 0o755))
		// a sibling whose name has the directory's name as a string prefix: must not leak into its listing
		must(hackpadfs.Mkdir(fs, c.Dir+"x", 0o755))
		must(hackpadfs.WriteFullFile(fs, c.Dir+"x/e000", []byte("s"), 0o600))
	}
	for _, ch := range c.Children {
		p := ch.Name
		if c.Dir != "." {
			p = c.Dir + "/" + ch.Name
		}
		perm := hackpadfs.FileMode(0o640)
		if ch.IsDir {
			perm = 0o750
			must(hackpadfs.Mkdir(fs, p, perm))
			// a grandchild: must never show up in the listing of the directory under test
			must(hackpadfs.WriteFullFile(fs, p+"/grandchild", []byte("g"), 0o600))
		} else {
			must(hackpadfs.WriteFullFile(fs, p, bytes.Repeat([]byte{'x'}, ch.Size), perm))
		}
		if ch.Special != 0 {
			bit := []hackpadfs.FileMode{0, hackpadfs.ModeSetuid, hackpadfs.ModeSetgid, hackpadfs.ModeSticky}[ch.Special]
			must(hackpadfs.Chmod(fs, p, perm|bit))
		}
	}
}

func build(c Case) built {
	switch c.Kind {
	case "mem":
		fs := subj.NewMem()
		populate(fs, c)
		return built{fs: fs, close: func() {}}
	case "kvplain":
		fs, err := keyvalue.NewFS(kvstore.New())
		must(err)
		populate(fs, c)
		return built{fs: fs, close: func() {}}
	case "osfs":
		w := world.New()
		fs := subj.OSFS(w.Root, 1)
		populate(fs, c)
		return built{fs: fs, close: w.Close}
	case "submem":
		parent := subj.NewMem()
		must(parent.MkdirAll("s/t", 0o755))
		must(hackpadfs.WriteFullFile(parent, "s/outside", []byte("o"), 0o644))
		view, err := hackpadfs.Sub(parent, "s/t")
		must(err)
		populate(view, c)
		return built{fs: view, close: func() {}}
	case "mount":
		root := subj.NewMem()
		populate(root, c)
		mfs, err := mount.NewFS(root)
		must(err)
		b := built{fs: mfs, close: func() {}}
		// the first directory child becomes a mount point
		for _, ch := range c.Children {
			if ch.IsDir {
				p := ch.Name
				if c.Dir != "." {
					p = c.Dir + "/" + ch.Name
				}
				m := subj.NewMem()
				must(hackpadfs.WriteFullFile(m, "inside", []byte("i"), 0o644))
				must(mfs.AddMount(p, m))
				b.mountChild = ch.Name
				break
			}
		}
		return b
	case "mountnested":
		// the directory under test lives in a file system mounted at o/i, INSIDE the one mounted at o (which has an o-level
		// directory i/<dir> of its own with other children): every look-up has two mount points that are prefixes of its path
		root, outer, inner := subj.NewMem(), subj.NewMem(), subj.NewMem()
		must(root.MkdirAll("o", 0o755))
		must(outer.MkdirAll("i", 0o755))
		if c.Dir != "." {
			must(outer.MkdirAll("i/"+c.Dir, 0o755))
			must(hackpadfs.WriteFullFile(outer, "i/"+c.Dir+"/shadowed", []byte("s"), 0o600))
		} else {
			must(hackpadfs.WriteFullFile(outer, "i/shadowed", []byte("s"), 0o600))
		}
		mfs, err := mount.NewFS(root)
		must(err)
		must(mfs.AddMount("o", outer))
		must(mfs.AddMount("o/i", inner))
		view, err := hackpadfs.Sub(mfs, "o/i")
		must(err)
		populate(view, c)
		return built{fs: view, close: func() {}}
	case "cache":
		src := subj.NewMem()
		populate(src, c)
		cfs, err := cache.NewReadOnlyFS(src, subj.NewMem(), cache.ReadOnlyOptions{})
		must(err)
		return built{fs: cfs, close: func() {}}
	case "tar":
		var buf bytes.Buffer
		tw := tar.NewWriter(&buf)
		if c.Dir != "." {
			must(tw.WriteHeader(&tar.Header{Name: c.Dir + "/", Typeflag: tar.TypeDir, Mode: 0o755}))
		}
		for _, ch := range c.Children {
			p := ch.Name
			if c.Dir != "." {
				p = c.Dir + "/" + ch.Name
			}
			if ch.IsDir {
				must(tw.WriteHeader(&tar.Header{Name: p + "/", Typeflag: tar.TypeDir, Mode: 0o750}))
				must(tw.WriteHeader(&tar.Header{Name: p + "/grandchild", Typeflag: tar.TypeReg, Mode: 0o600, Size: 1}))
				_, err := tw.Write([]byte("g"))
				must(err)
			} else {
				must(tw.WriteHeader(&tar.Header{Name: p, Typeflag: tar.TypeReg, Mode: 0o640, Size: int64(ch.Size)}))
				_, err := tw.Write(bytes.Repeat([]byte{'x'}, ch.Size))
				must(err)
			}
		}
		must(tw.Close())
		tfs, err := htar.NewReaderFS(context.Background(), &buf, htar.ReaderFSOptions{})
		must(err)
		select {
		case <-tfs.Done():
		case <-time.After(vf.WatchdogDur()):
			panic("tar unpack did not finish")
		}
		if uerr := tfs.UnarchiveErr(); uerr != nil {
			panic(uerr)
		}
		return built{fs: tfs, close: func() {}}
	}
	panic(c.Kind)
}

func check(c Case) (string, string) {
	var sig, msg string
	pan, hung := vf.Guard(func() { sig, msg = checkInner(c) })
	if hung {
		return "C16/" + c.Kind + " hang", "did not terminate"
	}
	if pan != "" {
		return "C16/" + c.Kind + " panic", pan
	}
	return sig, msg
}

func checkInner(c Case) (string, string) {
	b := build(c)
	defer b.close()
	base := "C16/" + c.Kind
	want := append([]Child{}, c.Children...)
	sort.Slice(want, func(i, j int) bool { return want[i].Name < want[j].Name })
	wantNames := make([]string, len(want))
	byName := map[string]Child{}
	for i, ch := range want {
		wantNames[i] = ch.Name
		byName[ch.Name] = ch
	}
	childPath := func(n string) string {
		if c.Dir == "." {
			return n
		}
		return c.Dir + "/" + n
	}
	// ---- listing by name
	des, err := hackpadfs.ReadDir(b.fs, c.Dir)
	if err != nil {
		return base + " readdir:error", fmt.Sprintf("ReadDir(%q) = %v", c.Dir, err)
	}
	var got []string
	for _, de := range des {
		got = append(got, de.Name())
	}
	if fmt.Sprint(got) != fmt.Sprint(wantNames) && !(len(got) == 0 && len(wantNames) == 0) {
		return base + " readdir:names", fmt.Sprintf("ReadDir(%q) names %v, want (sorted, each once) %v", c.Dir, got, wantNames)
	}
	for _, de := range des {
		ch := byName[de.Name()]
		fi, err := hackpadfs.Stat(b.fs, childPath(de.Name()))
		if err != nil {
			return base + " readdir:child-stat", fmt.Sprintf("Stat(%q) = %v", childPath(de.Name()), err)
		}
		if de.IsDir() != ch.IsDir || de.IsDir() != fi.IsDir() || de.Type() != fi.Mode().Type() {
			return base + " readdir:kind", fmt.Sprintf("entry %q: IsDir=%v Type=%v, Stat: IsDir=%v Type=%v, created as dir=%v", de.Name(), de.IsDir(), de.Type(), fi.IsDir(), fi.Mode().Type(), ch.IsDir)
		}
		info, err := de.Info()
		if err != nil {
			return base + " readdir:info-error", fmt.Sprintf("entry %q Info() = %v", de.Name(), err)
		}
		if info.Name() != de.Name() || info.IsDir() != fi.IsDir() {
			return base + " readdir:info", fmt.Sprintf("entry %q: Info name=%q dir=%v; Stat dir=%v", de.Name(), info.Name(), info.IsDir(), fi.IsDir())
		}
		if de.Name() != b.mountChild {
			// for a child that is itself a mount point only name and kind are pinned
			if info.Mode() != fi.Mode() || (!fi.IsDir() && info.Size() != fi.Size()) || (!fi.IsDir() && info.Size() != int64(ch.Size)) {
				return base + " readdir:info", fmt.Sprintf("entry %q: Info mode=%v size=%d; Stat mode=%v size=%d; created with size %d", de.Name(), info.Mode(), info.Size(), fi.Mode(), fi.Size(), ch.Size)
			}
		}
	}
	// ---- listing a non-directory
	for _, ch := range want {
		if !ch.IsDir {
			_, err := hackpadfs.ReadDir(b.fs, childPath(ch.Name))
			if err == nil || !errors.Is(err, hackpadfs.ErrNotDir) {
				return base + " readdir:file-not-notdir", fmt.Sprintf("ReadDir(%q) of a regular file = %v, want an error matching ErrNotDir", childPath(ch.Name), err)
			}
			// ... and through one handle, asked more than once (the answer must not change on the second attempt)
			if fh, oerr := b.fs.Open(childPath(ch.Name)); oerr == nil {
				for attempt, n := range []int{-1, 1, -1} {
					_, rerr := hackpadfs.ReadDirFile(fh, n)
					if errors.Is(rerr, hackpadfs.ErrNotImplemented) {
						break
					}
					if rerr == nil || rerr == io.EOF || !errors.Is(rerr, hackpadfs.ErrNotDir) {
						_ = fh.Close()
						return base + " readdir:file-handle-not-notdir", fmt.Sprintf("attempt %d: ReadDir(%d) on a handle of the regular file %q = %v, want an error matching ErrNotDir", attempt, n, childPath(ch.Name), rerr)
					}
				}
				_ = fh.Close()
			}
			break
		}
	}
	// ... and through the handle of the open that CREATED a regular file (a record that never went through a look-up)
	if created, cerr := hackpadfs.OpenFile(b.fs, childPath("zz-created"), os.O_RDWR|os.O_CREATE|os.O_EXCL, 0o644); cerr == nil {
		var bad string
		for attempt, n := range []int{-1, 1, -1} {
			_, rerr := hackpadfs.ReadDirFile(created, n)
			if errors.Is(rerr, hackpadfs.ErrNotImplemented) {
				break
			}
			if rerr == nil || rerr == io.EOF || !errors.Is(rerr, hackpadfs.ErrNotDir) {
				bad = fmt.Sprintf("attempt %d: ReadDir(%d) on the handle that created the regular file %q = %v, want an error matching ErrNotDir", attempt, n, childPath("zz-created"), rerr)
				break
			}
		}
		_ = created.Close()
		if rmErr := hackpadfs.Remove(b.fs, childPath("zz-created")); rmErr != nil {
			return base + " cleanup", rmErr.Error()
		}
		if bad != "" {
			return base + " readdir:creating-handle-not-notdir", bad
		}
	}
	// ---- paged reads on a handle
	f, err := b.fs.Open(c.Dir)
	if err != nil {
		return base + " open-dir", err.Error()
	}
	defer func() { _ = f.Close() }()
	for _, pre := range c.Pre {
		switch pre {
		case "hstat":
			fi, err := f.Stat()
			if err != nil || !fi.IsDir() {
				return base + " handle-stat", fmt.Sprintf("Stat on the directory handle = %v, %v", fi, err)
			}
		case "add":
			ch := Child{Name: "zlate", Size: 3}
			if _, ok := byName[ch.Name]; ok {
				continue
			}
			must(hackpadfs.WriteFullFile(b.fs, childPath(ch.Name), []byte("new"), 0o640))
			want = append(want, ch)
			sort.Slice(want, func(i, j int) bool { return want[i].Name < want[j].Name })
			wantNames = append(wantNames, ch.Name)
			sort.Strings(wantNames)
			byName[ch.Name] = ch
		case "remove":
			for i, ch := range want {
				if !ch.IsDir {
					must(hackpadfs.Remove(b.fs, childPath(ch.Name)))
					want = append(append([]Child{}, want[:i]...), want[i+1:]...)
					wantNames = append(append([]string{}, wantNames[:i]...), wantNames[i+1:]...)
					delete(byName, ch.Name)
					break
				}
			}
		}
	}
	seen := map[string]int{}
	total := 0
	fresh := true
	exhausted := false
	strict := true // until a mid-way n<=0 call, after which the statement pins only "no panic, nil error"
	for i, n := range c.Pages {
		page, err := hackpadfs.ReadDirFile(f, n)
		if errors.Is(err, hackpadfs.ErrNotImplemented) {
			return "", ""
		}
		what := fmt.Sprintf("page %d ReadDir(%d) after %d of %d entries", i, n, total, len(want))
		if n <= 0 {
			if err != nil {
				return base + " page:nonpositive-error", fmt.Sprintf("%s = (%d entries, %v), want nil error", what, len(page), err)
			}
			if exhausted && strict && len(page) != 0 {
				return base + " page:after-all-delivered", fmt.Sprintf("%s: all entries had been delivered already; got %d entries again", what, len(page))
			}
			if fresh {
				var names []string
				for _, de := range page {
					names = append(names, de.Name())
				}
				sort.Strings(names)
				if fmt.Sprint(names) != fmt.Sprint(wantNames) && !(len(names) == 0 && len(wantNames) == 0) {
					return base + " page:nonpositive-fresh", fmt.Sprintf("%s on a fresh handle returned %v, want all of %v", what, names, wantNames)
				}
			}
			if fresh {
				// everything was delivered: from here on nothing remains
				total = len(want)
				for _, de := range page {
					seen[de.Name()]++
				}
				exhausted = true
			} else {
				strict = false
			}
			fresh = false
			continue
		}
		if exhausted && strict {
			// after a non-positive count on a fresh handle returned all entries, no entries remain: io.EOF and nothing else
			if len(page) != 0 || err != io.EOF {
				return base + " page:after-all-delivered", fmt.Sprintf("%s: a non-positive count on the fresh handle had returned all %d entries; got (%d entries, %v), want (none, io.EOF)", what, len(want), len(page), err)
			}
			continue
		}
		fresh = false
		if !strict {
			if err != nil && err != io.EOF {
				return base + " page:after-nonpositive-error", fmt.Sprintf("%s = %v", what, err)
			}
			continue
		}
		if len(page) == 0 && err == nil {
			return base + " page:empty-nil", fmt.Sprintf("%s returned an empty page with a nil error", what)
		}
		if len(page) > n {
			return base + " page:too-many", fmt.Sprintf("%s returned %d entries", what, len(page))
		}
		if err == io.EOF && (len(page) != 0 || total != len(want)) {
			return base + " page:early-eof", fmt.Sprintf("%s = (%d entries, EOF)", what, len(page))
		}
		if err != nil && err != io.EOF {
			return base + " page:error", fmt.Sprintf("%s = %v", what, err)
		}
		if err == nil && total == len(want) {
			return base + " page:no-eof", fmt.Sprintf("%s returned %d entries although none remain", what, len(page))
		}
		for _, de := range page {
			seen[de.Name()]++
			if seen[de.Name()] > 1 {
				return base + " page:duplicate", fmt.Sprintf("%s returned %q again", what, de.Name())
			}
			if _, ok := byName[de.Name()]; !ok {
				return base + " page:unknown", fmt.Sprintf("%s returned %q which is not a child", what, de.Name())
			}
			if de.IsDir() != byName[de.Name()].IsDir {
				return base + " page:kind", fmt.Sprintf("%s: %q IsDir=%v", what, de.Name(), de.IsDir())
			}
		}
		total += len(page)
	}
	if strict && total < len(want) {
		// drain: the remaining pages must deliver every child exactly once and then EOF
		for guard := 0; guard < len(want)+3; guard++ {
			page, err := hackpadfs.ReadDirFile(f, 7)
			if len(page) == 0 && err == nil {
				return base + " page:empty-nil", fmt.Sprintf("drain ReadDir(7) after %d of %d returned an empty page with nil error", total, len(want))
			}
			for _, de := range page {
				seen[de.Name()]++
				if seen[de.Name()] > 1 {
					return base + " page:duplicate", fmt.Sprintf("drain returned %q again", de.Name())
				}
			}
			total += len(page)
			if err == io.EOF {
				break
			}
			if err != nil {
				return base + " page:error", err.Error()
			}
		}
		if total != len(want) {
			return base + " page:missing", fmt.Sprintf("paged reads delivered %d of %d children", total, len(want))
		}
	}
	return "", ""
}

func genCase(t *rapid.T, kind string) Case {
	c := Case{Kind: kind, Dir: rapid.SampledFrom([]string{"d", "d", "."}).Draw(t, "dir")}
	maxN := 40
	if kind == "osfs" && rapid.IntRange(0, 9).Draw(t, "huge") == 0 {
		maxN = 300
	}
	n := rapid.IntRange(0, maxN).Draw(t, "n")
	if maxN == 300 {
		n = rapid.IntRange(200, 300).Draw(t, "nbig")
	}
	perm := rapid.Permutation(seq(n)).Draw(t, "order")
	// name shapes: mostly e000.., sometimes names whose byte order differs from "natural" orders (upper case, leading dot,
	// dash, space, non-ASCII, a name that is a string prefix of the next)
	shape := rapid.SampledFrom([]string{"e%03d", "e%03d", "e%03d", ".e%03d", "E%03d", "e %03d", "\u00e9%03d", "-%03d", "e%03d.txt", "e%d"}).Draw(t, "nameshape")
	mixed := rapid.IntRange(0, 3).Draw(t, "mixedshapes") == 0
	for _, i := range perm {
		sh := shape
		if mixed && i%2 == 1 {
			sh = "E%03d"
		}
		c.Children = append(c.Children, Child{Name: fmt.Sprintf(sh, i), IsDir: rapid.IntRange(0, 2).Draw(t, "isdir") == 0, Size: rapid.IntRange(0, 9).Draw(t, "size"), Special: special(t)})
	}
	if c.Dir != "." && rapid.IntRange(0, 3).Draw(t, "samename") == 0 {
		// a child that has its directory's own name (d/d): comparisons of a base name with a full path show here
		c.Children = append(c.Children, Child{Name: c.Dir, IsDir: rapid.Bool().Draw(t, "samenamedir"), Size: 1})
	}
	if c.Dir == "." && kind == "submem" {
		// fine: the view's own root
	}
	np := rapid.IntRange(1, 8).Draw(t, "npages")
	for i := 0; i < np; i++ {
		opts := []int{1, 2, n - 1, n, n + 1, 1000000, 3, 7, math.MaxInt32, math.MaxInt}
		if rapid.IntRange(0, 6).Draw(t, "nonpos") == 0 {
			opts = []int{0, -1, math.MinInt}
		}
		c.Pages = append(c.Pages, rapid.SampledFrom(opts).Draw(t, "page"))
	}
	// between Open and the first page: the listing is the directory's content when it is read, not when the handle was
	// opened or first asked about itself
	pre := []string{"hstat"}
	if kind != "cache" && kind != "tar" {
		pre = []string{"hstat", "add", "remove"}
	}
	if rapid.IntRange(0, 2).Draw(t, "withpre") == 0 {
		c.Pre = rapid.SliceOfN(rapid.SampledFrom(pre), 1, 3).Draw(t, "pre")
	}
	return c
}

func special(t *rapid.T) int {
	if rapid.IntRange(0, 5).Draw(t, "hasspecial") != 0 {
		return 0
	}
	return rapid.IntRange(1, 3).Draw(t, "special")
}

func seq(n int) []int {
	s := make([]int, n)
	for i := range s {
		s[i] = i
	}
	return s
}

func run(t *testing.T, kind string) {
	vf.Check(t, kind, func(rt *rapid.T, rec *vf.Rec) {
		c := genCase(rt, kind)
		if k := knownSig(c); k != "" {
			rec.Excluded(k)
			rt.Skip("known finding")
		}
		rec.Step(c)
		pos := 0
		for _, p := range c.Pages {
			if p > 0 {
				pos++
			}
		}
		if len(c.Children) >= 2 && pos >= 2 {
			rec.NonTrivial()
		}
		if len(c.Pre) > 0 {
			rec.Class("pre-page-activity")
		}
		rec.Class(fmt.Sprintf("children:%d-%d", len(c.Children)/10*10, len(c.Children)/10*10+9))
		if sig, msg := check(c); sig != "" {
			rec.Failf(rt, sig, "%s", msg)
		}
	})
}

func TestMem(t *testing.T)         { run(t, "mem") }
func TestKVPlain(t *testing.T)     { run(t, "kvplain") }
func TestMount(t *testing.T)       { run(t, "mount") }
func TestSubMem(t *testing.T)      { run(t, "submem") }
func TestMountNested(t *testing.T) { run(t, "mountnested") }
func TestCache(t *testing.T)       { run(t, "cache") }
func TestTar(t *testing.T)         { run(t, "tar") }
func TestOSFS(t *testing.T)        { run(t, "osfs") }

func TestReplayAll(t *testing.T) {
	for _, kind := range kinds {
		kind := kind
		t.Run(kind, func(t *testing.T) {
			vf.Replay(t, kind, func(steps []json.RawMessage) (string, string) {
				for _, raw := range steps {
					var c Case
					if err := json.Unmarshal(raw, &c); err != nil {
						return "bad-replay", err.Error()
					}
					if sig, msg := check(c); sig != "" {
						return sig, msg
					}
				}
				return "", ""
			})
		})
	}
}

func knownSig(c Case) string { return "" }
func registerProbes()        {}
