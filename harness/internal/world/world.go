// Package world creates the per-case reference directory used with the raw os package.
package world

import (
	"os"
	"path/filepath"
	"sync"
	"sync/atomic"
	"syscall"
)

var (
	once    sync.Once
	base    string
	counter int64
)

// Init sets umask 0 and chooses the base directory (tmpfs if available). Idempotent.
func Init() {
	once.Do(func() {
		syscall.Umask(0)
		for _, cand := range []string{"/dev/shm", os.TempDir()} {
			d, err := os.MkdirTemp(cand, "verifw-")
			if err == nil {
				base = d
				return
			}
		}
		panic("no scratch directory available")
	})
}

// Cleanup removes the base directory (call from TestMain after m.Run()).
func Cleanup() {
	if base != "" {
		_ = os.RemoveAll(base)
	}
}

// RootName is the name of every world's root directory.
const RootName = `r:o\ot d`

// World is one reference directory: Root is the FS root, Sentinel a sibling that must never change.
type World struct {
	Dir      string
	Root     string
	Sentinel string
}

// New creates a fresh world.
func New() *World {
	Init()
	n := atomic.AddInt64(&counter, 1)
	d := filepath.Join(base, "w"+itoa(n))
	// the root directory's own name holds a colon, a backslash and a space: ordinary bytes in a Unix path, which the
	// os-backed FS must treat as such when it is rooted there (through any chain of Sub calls)
	w := &World{Dir: d, Root: d + "/" + RootName, Sentinel: d + "/sentinel"}
	must(os.MkdirAll(w.Root, 0o777))
	must(os.MkdirAll(w.Sentinel, 0o777))
	must(os.WriteFile(w.Sentinel+"/keep", []byte("sentinel"), 0o644))
	return w
}

// Close removes the world.
func (w *World) Close() {
	_ = os.Chmod(w.Root, 0o777)
	_ = filepath.Walk(w.Dir, func(p string, info os.FileInfo, err error) error {
		if err == nil && info.IsDir() {
			_ = os.Chmod(p, 0o777)
		}
		return nil
	})
	_ = os.RemoveAll(w.Dir)
}

// SentinelIntact reports whether the sentinel sibling is unchanged.
func (w *World) SentinelIntact() bool {
	des, err := os.ReadDir(w.Sentinel)
	if err != nil || len(des) != 1 || des[0].Name() != "keep" {
		return false
	}
	b, err := os.ReadFile(w.Sentinel + "/keep")
	if err != nil || string(b) != "sentinel" {
		return false
	}
	top, err := os.ReadDir(w.Dir)
	return err == nil && len(top) == 2
}

func must(err error) {
	if err != nil {
		panic(err)
	}
}

func itoa(n int64) string {
	if n == 0 {
		return "0"
	}
	var b []byte
	for n > 0 {
		b = append([]byte{byte('0' + n%10)}, b...)
		n /= 10
	}
	return string(b)
}
