// Package sched is a small cooperative scheduler: program threads are real goroutines, but only the
// holder of the token runs. A thread hands the token back at its yield points, and the scheduler
// picks the next thread from a choice list (drawn by rapid, or enumerated). Yield points are placed
// by wrapping the key-value store (before every Transaction()) — never while the store's mutex is
// held — so the explored interleavings are exactly those at store-transaction granularity.
package sched

import (
	"context"
	"sync"
	"time"

	"github.com/hack-pad/hackpadfs/keyvalue"
	"github.com/hack-pad/hackpadfs/keyvalue/blob"
)

// Sched runs a set of threads under a schedule.
type Sched struct {
	choices []int
	pos     int
	// Trace is the sequence of thread indices that were given the token.
	Trace []int
	// Runnable[i] lists the threads that could have been chosen at step i of Trace.
	Runnable [][]int
	// ByThread makes choices name thread indices directly (a choice naming a finished thread falls back to
	// the default policy) instead of indexing the runnable list.
	ByThread bool
	// Preemptions counts token hand-overs away from a thread that could have continued.
	Preemptions int

	threads []*thread
	current int
	parked  chan int // a thread reports: parked at a yield point (its index) or finished (-1-index)
	mu      sync.Mutex
	active  bool
}

type thread struct {
	resume   chan struct{}
	finished bool
	started  bool
}

// New returns a scheduler that follows choices; when they are used up the current thread keeps running
// (and the lowest runnable thread is picked when it finishes).
func New(choices []int) *Sched {
	return &Sched{choices: choices, parked: make(chan int)}
}

// Yield is called from the running thread at a yield point.
func (s *Sched) Yield() {
	s.mu.Lock()
	active := s.active
	cur := s.current
	s.mu.Unlock()
	if !active {
		return // outside Run (set-up and inspection code): no scheduling
	}
	t := s.threads[cur]
	s.parked <- cur
	<-t.resume
}

// Run executes the thread bodies to completion under the schedule. It reports false if the threads did
// not finish within the limit (a thread blocked outside a yield point).
func (s *Sched) Run(limit time.Duration, bodies ...func()) bool {
	s.threads = make([]*thread, len(bodies))
	for i := range bodies {
		s.threads[i] = &thread{resume: make(chan struct{})}
	}
	s.mu.Lock()
	s.active = true
	s.mu.Unlock()
	defer func() {
		s.mu.Lock()
		s.active = false
		s.mu.Unlock()
	}()
	for i, body := range bodies {
		i, body := i, body
		go func() {
			<-s.threads[i].resume
			body()
			s.parked <- -1 - i
		}()
	}
	last := -1
	deadline := time.After(limit)
	for {
		var runnable []int
		for i, t := range s.threads {
			if !t.finished {
				runnable = append(runnable, i)
			}
		}
		if len(runnable) == 0 {
			return true
		}
		next := -1
		if s.pos < len(s.choices) && s.ByThread {
			for _, r := range runnable {
				if r == s.choices[s.pos] {
					next = r
				}
			}
			s.pos++
		} else if s.pos < len(s.choices) {
			next = runnable[s.choices[s.pos]%len(runnable)]
			s.pos++
		}
		if next < 0 {
			// no more choices: keep running the last thread if it can continue
			for _, r := range runnable {
				if r == last {
					next = r
				}
			}
			if next < 0 {
				next = runnable[0]
			}
		}
		if last >= 0 && next != last && !s.threads[last].finished {
			s.Preemptions++
		}
		s.Trace = append(s.Trace, next)
		s.Runnable = append(s.Runnable, runnable)
		s.mu.Lock()
		s.current = next
		s.mu.Unlock()
		s.threads[next].resume <- struct{}{}
		select {
		case who := <-s.parked:
			if who < 0 {
				s.threads[-1-who].finished = true
			}
		case <-deadline:
			return false
		}
		last = next
	}
}

// Store wraps a TransactionStore with a yield point before every transaction and, with Blobs set, before every
// blob operation made outside a transaction (file reads and writes work on the record's blob outside transactions).
type Store struct {
	Inner keyvalue.TransactionStore
	S     *Sched
	// Blobs enables yield points at blob-operation granularity.
	Blobs bool
	// Transactions counts transactions begun.
	Transactions int
	inTxn        bool
}

func (y *Store) Get(ctx context.Context, p string) (keyvalue.FileRecord, error) {
	return y.Inner.Get(ctx, p)
}

func (y *Store) Set(ctx context.Context, p string, src keyvalue.FileRecord) error {
	return y.Inner.Set(ctx, p, src)
}

func (y *Store) Transaction(o keyvalue.TransactionOptions) (keyvalue.Transaction, error) {
	y.S.Yield()
	y.Transactions++
	t, err := y.Inner.Transaction(o)
	if err != nil {
		return nil, err
	}
	y.inTxn = true
	return &yieldTxn{Transaction: t, st: y}, nil
}

type yieldTxn struct {
	keyvalue.Transaction
	st *Store
}

func (t *yieldTxn) Commit(ctx context.Context) ([]keyvalue.OpResult, error) {
	res, err := t.Transaction.Commit(ctx)
	t.st.inTxn = false
	if err == nil && t.st.Blobs {
		for i := range res {
			if res[i].Record != nil && res[i].Err == nil && !res[i].Record.Mode().IsDir() {
				res[i].Record = &yieldRecord{FileRecord: res[i].Record, st: t.st}
			}
		}
	}
	return res, err
}

func (t *yieldTxn) Abort() error {
	err := t.Transaction.Abort()
	t.st.inTxn = false
	return err
}

// yieldRecord hands out the record's blob behind yield points.
type yieldRecord struct {
	keyvalue.FileRecord
	st *Store
}

func (r *yieldRecord) Data() (blob.Blob, error) {
	b, err := r.FileRecord.Data()
	if err != nil || b == nil {
		return b, err
	}
	if yb, ok := b.(*yieldBlob); ok {
		return yb, nil
	}
	return &yieldBlob{inner: b, st: r.st}, nil
}

// yieldBlob yields before every blob operation made outside a transaction.
type yieldBlob struct {
	inner blob.Blob
	st    *Store
}

func (b *yieldBlob) yield() {
	if !b.st.inTxn {
		b.st.S.Yield()
	}
}

func unwrap(b blob.Blob) blob.Blob {
	if yb, ok := b.(*yieldBlob); ok {
		return yb.inner
	}
	return b
}

func (b *yieldBlob) Bytes() []byte { b.yield(); return b.inner.Bytes() }
func (b *yieldBlob) Len() int      { return b.inner.Len() }
func (b *yieldBlob) View(start, end int64) (blob.Blob, error) {
	b.yield()
	return blob.View(b.inner, start, end)
}
func (b *yieldBlob) Slice(start, end int64) (blob.Blob, error) {
	b.yield()
	return blob.Slice(b.inner, start, end)
}
func (b *yieldBlob) Set(src blob.Blob, off int64) (int, error) {
	b.yield()
	return blob.Set(b.inner, unwrap(src), off)
}
func (b *yieldBlob) Grow(n int64) error     { b.yield(); return blob.Grow(b.inner, n) }
func (b *yieldBlob) Truncate(n int64) error { b.yield(); return blob.Truncate(b.inner, n) }

var _ keyvalue.TransactionStore = &Store{}
