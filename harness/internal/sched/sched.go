// Package sched is a small cooperative scheduler: program threads are real goroutines, but only the
// holder of the token runs. A thread hands the token back at its yield points, and the scheduler
// picks the next thread from a choice list (drawn by rapid, or enumerated). Yield points are placed
// by wrapping the key-value store (before every Transaction()) — never while the store's mutex is
// held — so the explored interleavings are exactly those at store-transaction granularity.
package sched

import (
	"context"
	"sync"
	"time"

	"github.com/hack-pad/hackpadfs/keyvalue"
	"github.com/hack-pad/hackpadfs/keyvalue/blob"
)

// Sched runs a set of threads under a schedule.
type Sched struct {
	choices []int
	pos     int
	// Trace is the sequence of thread indices that were given the token.
	Trace []int
	// Preemptions counts token hand-overs away from a thread that could have continued.
	Preemptions int

	threads []*thread
	current int
	parked  chan int // a thread reports: parked at a yield point (its index) or finished (-1-index)
	mu      sync.Mutex
	active  bool
}

type thread struct {
	resume   chan struct{}
	finished bool
	started  bool
}

// New returns a scheduler that follows choices; when they are used up the current thread keeps running
// (and the lowest runnable thread is picked when it finishes).
func New(choices []int) *Sched {
	return &Sched{choices: choices, parked: make(chan int)}
}

// Yield is called from the running thread at a yield point.
func (s *Sched) Yield() {
	s.mu.Lock()
	active := s.active
	cur := s.current
	s.mu.Unlock()
	if !active {
		return // outside Run (set-up and inspection code): no scheduling
	}
	t := s.threads[cur]
	s.parked <- cur
	<-t.resume
}

// Run executes the thread bodies to completion under the schedule. It reports false if the threads did
// not finish within the limit (a thread blocked outside a yield point).
func (s *Sched) Run(limit time.Duration, bodies ...func()) bool {
	s.threads = make([]*thread, len(bodies))
	for i := range bodies {
		s.threads[i] = &thread{resume: make(chan struct{})}
	}
	s.mu.Lock()
	s.active = true
	s.mu.Unlock()
	defer func() {
		s.mu.Lock()
		s.active = false
		s.mu.Unlock()
	}()
	for i, body := range bodies {
		i, body := i, body
		go func() {
			<-s.threads[i].resume
			body()
			s.parked <- -1 - i
		}()
	}
	last := -1
	deadline := time.After(limit)
	for {
		var runnable []int
		for i, t := range s.threads {
			if !t.finished {
				runnable = append(runnable, i)
			}
		}
		if len(runnable) == 0 {
			return true
		}
		next := -1
		if s.pos < len(s.choices) {
			next = runnable[s.choices[s.pos]%len(runnable)]
			s.pos++
		} else {
			// no more choices: keep running the last thread if it can continue
			for _, r := range runnable {
				if r == last {
					next = r
				}
			}
			if next < 0 {
				next = runnable[0]
			}
		}
		if last >= 0 && next != last && !s.threads[last].finished {
			s.Preemptions++
		}
		s.Trace = append(s.Trace, next)
		s.mu.Lock()
		s.current = next
		s.mu.Unlock()
		s.threads[next].resume <- struct{}{}
		select {
		case who := <-s.parked:
			if who < 0 {
				s.threads[-1-who].finished = true
			}
		case <-deadline:
			return false
		}
		last = next
	}
}

// Store wraps a TransactionStore with a yield point before every transaction.
type Store struct {
	Inner keyvalue.TransactionStore
	S     *Sched
	// Transactions counts transactions begun.
	Transactions int
}

func (y *Store) Get(ctx context.Context, p string) (keyvalue.FileRecord, error) {
	return y.Inner.Get(ctx, p)
}

func (y *Store) Set(ctx context.Context, p string, src keyvalue.FileRecord) error {
	return y.Inner.Set(ctx, p, src)
}

func (y *Store) Transaction(o keyvalue.TransactionOptions) (keyvalue.Transaction, error) {
	y.S.Yield()
	y.Transactions++
	return y.Inner.Transaction(o)
}

var _ keyvalue.TransactionStore = &Store{}
var _ blob.Blob = (*blob.Bytes)(nil)
