// Package subj builds the file systems under test ("subjects") and their layer stacks.
package subj

import (
	"strings"

	"github.com/hack-pad/hackpadfs"
	"github.com/hack-pad/hackpadfs/keyvalue"
	"github.com/hack-pad/hackpadfs/mem"
	"github.com/hack-pad/hackpadfs/mount"
	hos "github.com/hack-pad/hackpadfs/os"

	"verifharness/internal/kvstore"
	"verifharness/internal/masks"
	"verifharness/internal/world"
)

// Subject is a file system under test.
type Subject struct {
	Kind  string
	FS    hackpadfs.FS
	Parts []hackpadfs.FS // constituent file systems (for whole-state comparisons)
	// Pre lists directories that exist in the subject's namespace from the start (mount points),
	// so the reference must be prepared with the same directories.
	Pre []string
	// MountPoints in the subject's namespace.
	MountPoints []string
	Store       *kvstore.Store
	Close       func()
}

func must(err error) {
	if err != nil {
		panic(err)
	}
}

// NewMem returns a fresh mem.FS.
func NewMem() *mem.FS {
	fs, err := mem.NewFS()
	must(err)
	return fs
}

// OSFS returns an os.FS rooted at dir through n chained Sub calls (n >= 1).
func OSFS(dir string, n int) hackpadfs.FS {
	els := strings.Split(strings.TrimPrefix(dir, "/"), "/")
	var fs hackpadfs.FS = hos.NewFS()
	// split the elements into n chunks
	if n > len(els) {
		n = len(els)
	}
	per := len(els) / n
	for i := 0; i < n; i++ {
		lo, hi := i*per, (i+1)*per
		if i == n-1 {
			hi = len(els)
		}
		sub, err := hackpadfs.Sub(fs, strings.Join(els[lo:hi], "/"))
		must(err)
		fs = sub
	}
	GuardOSRoot(fs, dir)
	return fs
}

// GuardOSRoot panics (a violation with the case's history) if an os.FS is not rooted where it must be: operations through
// a mis-rooted os.FS would hit the real file system outside the scratch directory.
func GuardOSRoot(fs hackpadfs.FS, wantDir string) {
	o, ok := fs.(*hos.FS)
	if !ok {
		return
	}
	got, err := o.ToOSPath(".")
	if err != nil || strings.TrimSuffix(got, "/") != strings.TrimSuffix(wantDir, "/") {
		panic("os.FS root escaped: ToOSPath(\".\") = " + got + " (want " + wantDir + ")")
	}
}

// New builds a mutable subject of the given kind.
//
//	mem        mem.FS
//	kvplain    keyvalue.FS over the plain map store
//	osfs       os.FS under one Sub root; ossub2/ossub3: the same root reached through 2 / 3 chained Sub calls
//	mount0     mount.FS without mount points (root only)
//	mount1     mount.FS with a mem.FS mounted at "a"
//	mount2     mount.FS with mem.FS at "a" and nested at "a/b"
//	mountstack mount.FS (no mount points) whose root is the mount1 composition
//	submem     Sub(mem, "s/t")
//	subsub     Sub(Sub(mem, "s"), "t")
//	submountpt Sub(mount.FS, "m") where "m" is a mount point
func New(kind string) *Subject {
	s := &Subject{Kind: kind, Close: func() {}}
	switch kind {
	case "mem":
		s.FS = NewMem()
		s.Parts = []hackpadfs.FS{s.FS}
	case "kvplain":
		s.Store = kvstore.New()
		fs, err := keyvalue.NewFS(s.Store)
		must(err)
		s.FS = fs
		s.Parts = []hackpadfs.FS{fs}
	case "osfs", "ossub2", "ossub3":
		w := world.New()
		n := map[string]int{"osfs": 1, "ossub2": 2, "ossub3": 3}[kind]
		s.FS = OSFS(w.Root, n)
		s.Parts = []hackpadfs.FS{s.FS}
		s.Close = w.Close
	case "mount0":
		root := NewMem()
		mfs, err := mount.NewFS(root)
		must(err)
		s.FS = mfs
		s.Parts = []hackpadfs.FS{mfs, root}
	case "mount1", "mount2", "mountstack":
		root := NewMem()
		must(root.Mkdir("a", 0o755))
		ma := NewMem()
		mfs, err := mount.NewFS(root)
		must(err)
		must(mfs.AddMount("a", ma))
		s.Pre = []string{"a"}
		s.MountPoints = []string{"a"}
		s.Parts = []hackpadfs.FS{mfs, root, ma}
		if kind == "mount2" {
			must(ma.Mkdir("b", 0o755))
			mab := NewMem()
			must(mfs.AddMount("a/b", mab))
			s.Pre = append(s.Pre, "a/b")
			s.MountPoints = append(s.MountPoints, "a/b")
			s.Parts = append(s.Parts, mab)
		}
		s.FS = mfs
		if kind == "mountstack" {
			// two stacked layers: the mount.FS with "a" mounted is itself the root of an outer, mount-less mount.FS
			outer, err := mount.NewFS(mfs)
			must(err)
			s.FS = outer
			s.Parts = append([]hackpadfs.FS{outer}, s.Parts...)
		}
	case "minimal":
		// a small writable FS: only Open, OpenFile, Mkdir, Remove, Rename; every other helper takes its fallback path
		inner := NewMem()
		s.FS = masks.New(inner, []string{"OpenFileFS", "MkdirFS", "RemoveFS", "RenameFS"}, &masks.Hooks{})
		s.Parts = []hackpadfs.FS{inner}
	case "submem":
		parent := NewMem()
		must(parent.MkdirAll("s/t", 0o755))
		view, err := hackpadfs.Sub(parent, "s/t")
		must(err)
		s.FS = view
		s.Parts = []hackpadfs.FS{view, parent}
	case "subsub":
		parent := NewMem()
		must(parent.MkdirAll("s/t", 0o755))
		v1, err := hackpadfs.Sub(parent, "s")
		must(err)
		v2, err := hackpadfs.Sub(v1, "t")
		must(err)
		s.FS = v2
		s.Parts = []hackpadfs.FS{v2, parent}
	case "submountpt":
		root := NewMem()
		must(root.Mkdir("m", 0o755))
		mm := NewMem()
		mfs, err := mount.NewFS(root)
		must(err)
		must(mfs.AddMount("m", mm))
		view, err := hackpadfs.Sub(mfs, "m")
		must(err)
		s.FS = view
		s.Parts = []hackpadfs.FS{view, mfs, root, mm}
	default:
		panic("unknown subject kind " + kind)
	}
	return s
}

// IsMountPoint reports whether p is a mount point of s.
func (s *Subject) IsMountPoint(p string) bool {
	for _, mp := range s.MountPoints {
		if mp == p {
			return true
		}
	}
	return false
}

// AboveMountPoint reports whether p is a proper ancestor of a mount point (or the root when mount points exist).
func (s *Subject) AboveMountPoint(p string) bool {
	for _, mp := range s.MountPoints {
		if p == "." || strings.HasPrefix(mp, p+"/") {
			return true
		}
	}
	return false
}

// MountOf returns the longest mount point that equals p or is a whole-element prefix of it ("" = root FS).
func (s *Subject) MountOf(p string) string {
	best := ""
	for _, mp := range s.MountPoints {
		if (p == mp || strings.HasPrefix(p, mp+"/")) && len(mp) > len(best) {
			best = mp
		}
	}
	return best
}

// SubMountAbove is Sub(mount.FS, "m") where the mount point is "m/a" (the view is above a mount point).
// Kept apart from New because it is a known-finding configuration (C07).
func SubMountAbove() *Subject {
	root := NewMem()
	must(root.MkdirAll("m/a", 0o755))
	ma := NewMem()
	mfs, err := mount.NewFS(root)
	must(err)
	must(mfs.AddMount("m/a", ma))
	view, err := hackpadfs.Sub(mfs, "m")
	must(err)
	return &Subject{Kind: "submountabove", FS: view, Parts: []hackpadfs.FS{view, mfs, root, ma}, Close: func() {}}
}
