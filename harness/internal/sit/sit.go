// Package sit classifies the situation of an operation in the reference tree before it is
// executed. Situations are the keys of known findings (exclusion by construction) and
// the stable part of violation signatures (so shrinking stays within one finding).
package sit

import (
	"os"
	"path"
	"strings"

	"verifharness/internal/gen"
	"verifharness/internal/ops"
)

// PathClass classifies p against the tree.
func PathClass(tr gen.Tree, p string) string {
	if p == "." {
		return "root"
	}
	for _, f := range tr.Files {
		if f == p {
			return "file"
		}
		if strings.HasPrefix(p, f+"/") {
			return "thrufile"
		}
	}
	for _, d := range tr.Dirs {
		if d == p {
			prefix := d + "/"
			for _, q := range append(append([]string{}, tr.Dirs...), tr.Files...) {
				if strings.HasPrefix(q, prefix) {
					return "dirfull"
				}
			}
			return "dirempty"
		}
	}
	parent := path.Dir(p)
	for _, d := range tr.Dirs {
		if d == parent {
			return "missing"
		}
	}
	return "orphan"
}

// Rel classifies the relation of two names.
func Rel(a, b string) string {
	switch {
	case a == b:
		return "same"
	case a == "." || strings.HasPrefix(b, a+"/"):
		return "new-in-old"
	case b == "." || strings.HasPrefix(a, b+"/"):
		return "old-in-new"
	}
	return "disjoint"
}

// Of returns the situation signature of op in tree.
func Of(op ops.Op, tr gen.Tree) string {
	switch op.K {
	case "openfile":
		f := []string{[]string{"R", "W", "RW", "X"}[op.Flag&3]}
		if op.Flag&os.O_CREATE != 0 {
			f = append(f, "C")
		}
		if op.Flag&os.O_EXCL != 0 {
			f = append(f, "E")
		}
		if op.Flag&os.O_TRUNC != 0 {
			f = append(f, "T")
		}
		if op.Flag&os.O_APPEND != 0 {
			f = append(f, "A")
		}
		if op.Data != nil {
			if len(op.Data) == 0 {
				f = append(f, "w0")
			} else {
				f = append(f, "w")
			}
		}
		return "openfile[" + strings.Join(f, "") + "]:" + PathClass(tr, op.P)
	case "create":
		w := ""
		if op.Data != nil {
			w = "[w]"
		}
		return "create" + w + ":" + PathClass(tr, op.P)
	case "rename", "symlink":
		return op.K + ":" + PathClass(tr, op.P) + "->" + PathClass(tr, op.P2) + ":" + Rel(op.P, op.P2)
	default:
		return op.K + ":" + PathClass(tr, op.P)
	}
}
