// Package vf is the small framework shared by all property packages:
// case recording, statistics for evidence, failure/replay files, the
// known-findings ledger with its regression probes, and watchdogs.
//
// Environment (set by /verif/check):
//
//	VERIF_PROP      property id (C01 ...)
//	VERIF_OUT       directory for stats (<leg>.stats.json) and replay files
//	VERIF_KNOWN     path of known_findings.txt
//	VERIF_REPLAY    path of a replay file: run only the replay interpreter
//	VERIF_SHARD     shard label, used in file names
package vf

import (
	"encoding/json"
	"flag"
	"fmt"
	"hash/fnv"
	"os"
	"path/filepath"
	"runtime/debug"
	"sort"
	"strings"
	"sync"
	"testing"
	"time"

	"pgregory.net/rapid"
)

// ---------------------------------------------------------------- recording

// Rec records one generated case.
type Rec struct {
	Steps      []any
	classes    map[string]bool
	nontrivial bool
	leg        *legStats
}

// Step appends a JSON-able step (operation, input, ...) to the case.
func (r *Rec) Step(s any) {
	r.Steps = append(r.Steps, s)
	if traceOn {
		traceStep(r, s)
	}
}

// Tracing (VERIF_TRACE=1): every step is appended to a file before it is executed, so that after an
// unrecoverable crash of the test binary (fatal runtime error, stack overflow) the driver can turn the
// last traced case into the replay file.
var (
	traceOn   = os.Getenv("VERIF_TRACE") != ""
	traceFile *os.File
	traceRec  *Rec
)

func traceStep(r *Rec, s any) {
	if traceRec != r || traceFile == nil {
		if traceFile != nil {
			_ = traceFile.Close()
		}
		out := os.Getenv("VERIF_OUT")
		if out == "" {
			out = os.TempDir()
		}
		f, err := os.Create(filepath.Join(out, fmt.Sprintf("trace-%s-%s.jsonl", r.leg.Leg, shard())))
		if err != nil {
			return
		}
		traceFile, traceRec = f, r
	}
	b, _ := json.Marshal(s)
	_, _ = traceFile.Write(append(b, '\n'))
}

// Class tags the case with a generator-distribution class.
func (r *Rec) Class(c string) {
	if r.classes == nil {
		r.classes = map[string]bool{}
	}
	r.classes[c] = true
}

// NonTrivial marks the case as non-trivial by the property's stated rule.
func (r *Rec) NonTrivial() { r.nontrivial = true }

// Excluded counts a drawn step that was skipped because it matches an active known finding.
func (r *Rec) Excluded(sig string) {
	r.leg.mu.Lock()
	r.leg.Excluded[sig]++
	r.leg.mu.Unlock()
}

// Count adds to a free-form counter reported in evidence.
func (r *Rec) Count(name string, n int) {
	r.leg.mu.Lock()
	r.leg.Counters[name] += n
	r.leg.mu.Unlock()
}

// Failure is a violation found in a case.
type Failure struct {
	Prop   string `json:"property"`
	Leg    string `json:"leg"`
	Sig    string `json:"sig"`
	Msg    string `json:"msg"`
	Steps  []any  `json:"steps"`
	Seed   string `json:"seed,omitempty"`
	Hang   bool   `json:"hang,omitempty"`
	Source string `json:"source,omitempty"`
}

var (
	failMu   sync.Mutex
	lastFail *Failure
)

// Failf records a violation of the property for the current case and stops the case.
// The rapid failure message is only the signature, so that shrinking stays
// within the same finding; details go to the replay file.
func (r *Rec) Failf(t interface{ Fatalf(string, ...any) }, sig, format string, args ...any) {
	f := &Failure{Prop: Prop(), Leg: r.leg.Leg, Sig: sig, Msg: fmt.Sprintf(format, args...), Steps: append([]any(nil), r.Steps...)}
	failMu.Lock()
	lastFail = f
	failMu.Unlock()
	t.Fatalf("%s", sig)
}

// HangExit is called when an operation of the code under test did not return
// within the watchdog. The goroutine cannot be killed, so the process writes
// the current history and exits with status 3; the driver re-runs the history
// in a fresh process to confirm.
func (r *Rec) HangExit(sig, format string, args ...any) {
	f := &Failure{Prop: Prop(), Leg: r.leg.Leg, Sig: sig, Msg: fmt.Sprintf(format, args...), Steps: append([]any(nil), r.Steps...), Hang: true}
	p := writeReplay(f)
	flushAll()
	fmt.Printf("HANG property=%s replay=%s sig=%s\n", Prop(), p, sig)
	os.Exit(3)
}

// ---------------------------------------------------------------- stats

type legStats struct {
	mu          sync.Mutex
	Leg         string         `json:"leg"`
	Shard       string         `json:"shard"`
	Evaluations int            `json:"evaluations"`
	NonTrivial  []string       `json:"nontrivial_fps"`
	Classes     map[string]int `json:"classes"`
	Excluded    map[string]int `json:"excluded"`
	Counters    map[string]int `json:"counters"`
	Samples     []any          `json:"samples"`
	Exhaustive  bool           `json:"exhaustive,omitempty"`
	seen        map[uint64]bool
}

var (
	legsMu sync.Mutex
	legs   = map[string]*legStats{}
)

func legFor(name string) *legStats {
	name += os.Getenv("VERIF_LEG_SUFFIX")
	legsMu.Lock()
	defer legsMu.Unlock()
	l := legs[name]
	if l == nil {
		l = &legStats{Leg: name, Shard: os.Getenv("VERIF_SHARD"), Classes: map[string]int{}, Excluded: map[string]int{}, Counters: map[string]int{}, seen: map[uint64]bool{}}
		legs[name] = l
	}
	return l
}

func fingerprint(v any) uint64 {
	b, _ := json.Marshal(v)
	h := fnv.New64a()
	_, _ = h.Write(b)
	return h.Sum64()
}

func (l *legStats) record(r *Rec) {
	l.mu.Lock()
	defer l.mu.Unlock()
	l.Evaluations++
	for c := range r.classes {
		l.Classes[c]++
	}
	if r.nontrivial {
		l.Classes["nontrivial"]++
		fp := fingerprint(r.Steps)
		if !l.seen[fp] {
			l.seen[fp] = true
			l.NonTrivial = append(l.NonTrivial, fmt.Sprintf("%016x", fp))
			if len(l.Samples) < 3 {
				l.Samples = append(l.Samples, r.Steps)
			}
		}
	}
}

func (l *legStats) flush() {
	out := os.Getenv("VERIF_OUT")
	if out == "" {
		return
	}
	l.mu.Lock()
	defer l.mu.Unlock()
	b, _ := json.Marshal(l)
	_ = os.MkdirAll(out, 0o755)
	label := shard()
	if strings.HasPrefix(l.Shard, "pid") {
		label = l.Shard // native fuzzing: coordinator and workers are separate processes with one VERIF_SHARD
	}
	writeAtomic(filepath.Join(out, fmt.Sprintf("%s.%s.stats.json", l.Leg, label)), b)
}

// writeAtomic: readers (the driver) never see a partially written file.
func writeAtomic(path string, b []byte) {
	tmp := fmt.Sprintf("%s.tmp%d", path, os.Getpid())
	if err := os.WriteFile(tmp, b, 0o644); err != nil {
		return
	}
	_ = os.Rename(tmp, path)
}

func flushAll() {
	legsMu.Lock()
	ls := make([]*legStats, 0, len(legs))
	for _, l := range legs {
		ls = append(ls, l)
	}
	legsMu.Unlock()
	for _, l := range ls {
		l.flush()
	}
}

func shard() string {
	s := os.Getenv("VERIF_SHARD")
	if s == "" {
		s = "0"
	}
	return s
}

// Prop returns the property id under check.
func Prop() string {
	p := os.Getenv("VERIF_PROP")
	if p == "" {
		p = "C??"
	}
	return p
}

func writeReplay(f *Failure) string {
	out := os.Getenv("VERIF_OUT")
	if out == "" {
		out = os.TempDir()
	}
	_ = os.MkdirAll(out, 0o755)
	if fl := flag.Lookup("rapid.seed"); fl != nil {
		f.Seed = fl.Value.String()
	}
	b, err := json.MarshalIndent(f, "", " ")
	if err != nil {
		b = []byte(fmt.Sprintf(`{"property":%q,"leg":%q,"sig":%q,"msg":%q}`, f.Prop, f.Leg, f.Sig, f.Msg))
	}
	p := filepath.Join(out, fmt.Sprintf("replay-%s-%s-%016x.json", f.Leg, shard(), fingerprint(f.Steps)))
	_ = os.WriteFile(p, b, 0o644)
	return p
}

// ---------------------------------------------------------------- running

// Replaying reports whether the process was started only to replay a file.
func Replaying() bool { return os.Getenv("VERIF_REPLAY") != "" }

// Check runs a rapid property as one leg of the current property's check.
func Check(t *testing.T, leg string, prop func(rt *rapid.T, rec *Rec)) {
	if Replaying() {
		t.Skip("replay mode")
	}
	l := legFor(leg)
	defer l.flush()
	defer reportFailure()
	_ = os.RemoveAll("testdata/rapid")
	rapid.Check(t, func(rt *rapid.T) {
		rec := &Rec{leg: l}
		defer func() {
			// A panic that is not rapid's own control flow comes from the code under test (or from harness
			// set-up that the code under test made fail): it is a violation with the current history, not an
			// infrastructure problem. The harness never panics on the unchanged tree.
			if r := recover(); r != nil {
				if tn := fmt.Sprintf("%T", r); !strings.HasPrefix(tn, "rapid.") && !strings.HasPrefix(tn, "*rapid.") {
					msg := fmt.Sprint(r)
					first := msg
					if i := strings.IndexByte(first, '\n'); i >= 0 {
						first = first[:i]
					}
					if len(first) > 80 {
						first = first[:80]
					}
					failMu.Lock()
					lastFail = &Failure{Prop: Prop(), Leg: leg, Sig: "panic:" + strings.ReplaceAll(first, " ", "_"), Msg: msg + "\n" + string(debug.Stack()), Steps: append([]any(nil), rec.Steps...)}
					failMu.Unlock()
				}
				panic(r)
			}
		}()
		prop(rt, rec)
		l.record(rec)
	})
}

// Each runs fn once per element of a finite enumerated space (no rapid): used for
// exhaustive legs. fn reports through rec.Failf(t, ...).
func Each(t *testing.T, leg string, n int, exhaustive bool, fn func(i int, t *testing.T, rec *Rec)) {
	if Replaying() {
		t.Skip("replay mode")
	}
	l := legFor(leg)
	l.Exhaustive = exhaustive
	defer l.flush()
	defer reportFailure()
	for i := 0; i < n; i++ {
		rec := &Rec{leg: l}
		fn(i, t, rec)
		l.record(rec)
	}
}

func reportFailure() {
	failMu.Lock()
	f := lastFail
	lastFail = nil
	failMu.Unlock()
	if f == nil {
		return
	}
	p := writeReplay(f)
	fmt.Printf("VIOLATION property=%s replay=%s sig=%s\n", f.Prop, p, f.Sig)
	fmt.Printf("DETAIL %s\n", strings.ReplaceAll(f.Msg, "\n", " | "))
}

// Replay runs interp on the steps of the replay file named by VERIF_REPLAY when its leg matches.
// interp returns a non-empty signature+message when the violation reproduces.
func Replay(t *testing.T, leg string, interp func(steps []json.RawMessage) (sig, msg string)) {
	p := os.Getenv("VERIF_REPLAY")
	if p == "" {
		t.Skip("not in replay mode")
	}
	b, err := os.ReadFile(p)
	if err != nil {
		t.Fatalf("replay file: %v", err)
	}
	var f struct {
		Leg   string            `json:"leg"`
		Steps []json.RawMessage `json:"steps"`
	}
	if err := json.Unmarshal(b, &f); err != nil {
		t.Fatalf("replay file: %v", err)
	}
	if f.Leg != leg && f.Leg != leg+os.Getenv("VERIF_LEG_SUFFIX") {
		t.Skip("other leg")
	}
	var sig, msg string
	func() {
		defer func() {
			if r := recover(); r != nil {
				sig, msg = "panic", fmt.Sprint(r)
			}
		}()
		sig, msg = interp(f.Steps)
	}()
	if sig != "" {
		fmt.Printf("VIOLATION property=%s replay=%s sig=%s\n", Prop(), p, sig)
		fmt.Printf("DETAIL %s\n", strings.ReplaceAll(msg, "\n", " | "))
		t.Fatalf("replay reproduces: %s", sig)
	}
	fmt.Printf("REPLAY-OK property=%s replay=%s (does not reproduce)\n", Prop(), p)
}

// ---------------------------------------------------------------- known findings

type knownEntry struct {
	Sig  string
	Text string
}

var (
	knownOnce   sync.Once
	knownList   []knownEntry
	probes      = map[string]func() (fails bool, detail string){}
	activeKnown = map[string]bool{}
)

func loadKnown() {
	knownOnce.Do(func() {
		p := os.Getenv("VERIF_KNOWN")
		if p == "" {
			return
		}
		b, err := os.ReadFile(p)
		if err != nil {
			return
		}
		for _, line := range strings.Split(string(b), "\n") {
			line = strings.TrimSpace(line)
			if !strings.HasPrefix(line, "known:") {
				continue
			}
			fields := strings.Fields(strings.TrimPrefix(line, "known:"))
			var prop, sig string
			var rest []string
			for _, f := range fields {
				switch {
				case strings.HasPrefix(f, "property=") && prop == "":
					prop = strings.TrimPrefix(f, "property=")
				case strings.HasPrefix(f, "sig=") && sig == "":
					sig = strings.TrimPrefix(f, "sig=")
				default:
					rest = append(rest, f)
				}
			}
			if prop == Prop() && sig != "" {
				knownList = append(knownList, knownEntry{Sig: sig, Text: strings.Join(rest, " ")})
			}
		}
	})
}

var prefixProbes = map[string]func(sig string) (bool, string){}

// RegisterProbePrefix registers a generic probe for every known finding whose signature starts with prefix.
func RegisterProbePrefix(prefix string, probe func(sig string) (fails bool, detail string)) {
	prefixProbes[prefix] = probe
}

// RegisterProbe registers the deterministic regression probe of a known finding: it
// returns true while the finding still reproduces on the tree under test.
func RegisterProbe(sig string, probe func() (fails bool, detail string)) { probes[sig] = probe }

// Known reports whether sig is a listed known finding whose probe still reproduces
// (so the situation is excluded by construction). A listed finding whose probe no
// longer fails is not excluded: the area is searched again.
func Known(sig string) bool { return activeKnown[sig] }

// Main is called from TestMain: runs the probes of the listed known findings,
// prints KNOWN-FINDING lines, runs the tests, flushes stats.
func Main(m *testing.M, cleanup ...func()) {
	debug.SetMaxStack(256 << 20)
	loadKnown()
	if !Replaying() {
		sort.Slice(knownList, func(i, j int) bool { return knownList[i].Sig < knownList[j].Sig })
		for _, k := range knownList {
			probe := probes[k.Sig]
			if probe == nil {
				for prefix, pp := range prefixProbes {
					if strings.HasPrefix(k.Sig, prefix) {
						pp, sig := pp, k.Sig
						probe = func() (bool, string) { return pp(sig) }
					}
				}
			}
			if probe == nil {
				fmt.Printf("KNOWN-UNPROBED property=%s sig=%s (no probe registered; not excluded)\n", Prop(), k.Sig)
				continue
			}
			fails, detail := safeProbe(probe)
			if fails {
				activeKnown[k.Sig] = true
				fmt.Printf("KNOWN-FINDING: property=%s sig=%s %s [%s]\n", Prop(), k.Sig, k.Text, detail)
			} else {
				fmt.Printf("KNOWN-GONE property=%s sig=%s (probe no longer fails; exclusion lifted)\n", Prop(), k.Sig)
			}
		}
	}
	code := m.Run()
	flushAll()
	for _, c := range cleanup {
		c()
	}
	os.Exit(code)
}

func safeProbe(p func() (bool, string)) (fails bool, detail string) {
	done := make(chan struct{})
	go func() {
		defer func() {
			if r := recover(); r != nil {
				fails, detail = true, fmt.Sprintf("panic: %v", r)
			}
			close(done)
		}()
		fails, detail = p()
	}()
	select {
	case <-done:
		return
	case <-time.After(WatchdogDur() * 2):
		return true, "probe did not return"
	}
}

// ---------------------------------------------------------------- watchdog

// WatchdogDur is the per-operation limit (default 10s; VERIF_WATCHDOG_MS overrides).
func WatchdogDur() time.Duration {
	if s := os.Getenv("VERIF_WATCHDOG_MS"); s != "" {
		var ms int
		_, _ = fmt.Sscanf(s, "%d", &ms)
		if ms > 0 {
			return time.Duration(ms) * time.Millisecond
		}
	}
	return 10 * time.Second
}

// Guard runs fn under the watchdog and recovers panics.
// hung=true means fn has not returned; the goroutine is leaked.
func Guard(fn func()) (panicked string, hung bool) { return GuardN(1, fn) }

// GuardN is Guard with n times the watchdog limit (for code that itself waits on the watchdog several times).
func GuardN(n int, fn func()) (panicked string, hung bool) {
	done := make(chan string, 1)
	go func() {
		defer func() {
			if r := recover(); r != nil {
				done <- fmt.Sprintf("%v", r)
				return
			}
			done <- ""
		}()
		fn()
	}()
	timer := time.NewTimer(time.Duration(n) * WatchdogDur())
	defer timer.Stop()
	select {
	case p := <-done:
		if p != "" {
			return "panic: " + p, false
		}
		return "", false
	case <-timer.C:
		return "", true
	}
}

// ---------------------------------------------------------------- native fuzzing support

var fuzzFlushEvery = 500

// FuzzRec starts recording one native-fuzz execution for the given leg. Native fuzz workers are separate
// processes that are killed at the end of the campaign, so statistics are flushed periodically under a
// per-process shard label.
func FuzzRec(leg string) *Rec {
	l := legFor(leg)
	if l.Shard == "" || !strings.HasPrefix(l.Shard, "pid") {
		l.Shard = fmt.Sprintf("pid%d", os.Getpid())
	}
	return &Rec{leg: l}
}

// FuzzDone records the execution.
func (r *Rec) FuzzDone() {
	r.leg.record(r)
	if r.leg.Evaluations%fuzzFlushEvery == 0 || r.leg.Evaluations < 20 {
		r.leg.flushAs(r.leg.Shard)
	}
}

// FuzzFail reports a violation found by a native fuzz execution: writes the replay file, prints the
// VIOLATION line and fails the test (the fuzzer then stores the failing input).
func (r *Rec) FuzzFail(t *testing.T, sig, format string, args ...any) {
	f := &Failure{Prop: Prop(), Leg: r.leg.Leg, Sig: sig, Msg: fmt.Sprintf(format, args...), Steps: append([]any(nil), r.Steps...), Source: "native-fuzz"}
	p := writeReplay(f)
	r.leg.flushAs(r.leg.Shard)
	t.Fatalf("VIOLATION property=%s replay=%s sig=%s\nDETAIL %s", f.Prop, p, sig, strings.ReplaceAll(f.Msg, "\n", " | "))
}

func (l *legStats) flushAs(shardLabel string) {
	out := os.Getenv("VERIF_OUT")
	if out == "" {
		return
	}
	l.mu.Lock()
	defer l.mu.Unlock()
	b, _ := json.Marshal(l)
	_ = os.MkdirAll(out, 0o755)
	writeAtomic(filepath.Join(out, fmt.Sprintf("%s.%s.stats.json", l.Leg, shardLabel)), b)
}

// MakeFuzz turns a rapid property into a native fuzz target body (rapid.MakeFuzz) with statistics and a JSON
// replay file written by the failing worker process (the driver picks it up from VERIF_OUT).
func MakeFuzz(leg string, prop func(rt *rapid.T, rec *Rec)) func(*testing.T, []byte) {
	return func(t *testing.T, input []byte) {
		rec := FuzzRec(leg)
		defer func() {
			failMu.Lock()
			f := lastFail
			lastFail = nil
			failMu.Unlock()
			if f != nil {
				f.Source = "native-fuzz"
				p := writeReplay(f)
				rec.leg.flushAs(rec.leg.Shard)
				t.Logf("VIOLATION property=%s replay=%s sig=%s", f.Prop, p, f.Sig)
			}
		}()
		rapid.MakeFuzz(func(rt *rapid.T) {
			rec.Steps = nil
			prop(rt, rec)
		})(t, input)
		rec.FuzzDone()
	}
}
