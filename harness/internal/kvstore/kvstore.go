// Package kvstore is a plain (non-transactional) keyvalue.Store over a Go map with lazy
// records and snapshot copies, the shape custom stores such as examples/s3 have.
// It supports fault injection and call counting (C14).
package kvstore

import (
	"context"
	"errors"
	"fmt"
	"sort"
	"strings"
	"sync"
	"time"

	"github.com/hack-pad/hackpadfs"
	"github.com/hack-pad/hackpadfs/keyvalue"
	"github.com/hack-pad/hackpadfs/keyvalue/blob"
)

// ErrInjected is the injected failure; it matches no hackpadfs sentinel.
var ErrInjected = errors.New("verif: injected store failure")

// ErrInjectedGone is the injected failure of a lazy evaluation under LazyNotExist; it matches hackpadfs.ErrNotExist.
var ErrInjectedGone = fmt.Errorf("verif: injected store failure, the object is gone: %w", hackpadfs.ErrNotExist)

// Rec is a stored record.
type Rec struct {
	Data    []byte
	Mode    hackpadfs.FileMode
	ModTime time.Time
}

// Store is the plain map store.
type Store struct {
	mu    sync.Mutex
	Recs  map[string]Rec
	calls int
	// FailAt, when > 0, makes the FailAt-th store call (Get, Set, lazy Data, lazy ReadDirNames; 1-based) fail.
	FailAt int
	// FailLen: how many consecutive calls fail from FailAt on (0 or 1 = that one call; an outage otherwise).
	FailLen int
	// LazyNotExist: a failing LAZY evaluation (a record's Data() or ReadDirNames()) fails with an error that matches
	// hackpadfs.ErrNotExist -- what an object store answers when the object went away after it was listed (the S3
	// example maps NoSuchKey to it) -- instead of ErrInjected. Get and Set failures stay ErrInjected.
	LazyNotExist bool
	// FailedSets counts the Set calls that were failed.
	FailedSets int
	Fired      string // which call failed ("" if none)
	Log        []string
	// Eager makes Get capture the record's data at Get time (a record then is a snapshot of that instant)
	// instead of loading it lazily on the first Data() call.
	Eager bool
}

// New returns an empty store.
func New() *Store { return &Store{Recs: map[string]Rec{}} }

// Calls returns the number of store calls so far.
func (s *Store) Calls() int { s.mu.Lock(); defer s.mu.Unlock(); return s.calls }

func (s *Store) tick(what string) error {
	s.calls++
	s.Log = append(s.Log, what)
	if n := s.FailLen; s.FailAt > 0 && (s.calls == s.FailAt || (n > 1 && s.calls > s.FailAt && s.calls < s.FailAt+n)) {
		if s.Fired == "" {
			s.Fired = what
		}
		if strings.HasPrefix(what, "set ") {
			s.FailedSets++
		}
		if s.LazyNotExist && (strings.HasPrefix(what, "data ") || strings.HasPrefix(what, "list ")) {
			return ErrInjectedGone
		}
		return ErrInjected
	}
	return nil
}

// Get implements keyvalue.Store.
func (s *Store) Get(ctx context.Context, p string) (keyvalue.FileRecord, error) {
	s.mu.Lock()
	defer s.mu.Unlock()
	if err := s.tick("get " + p); err != nil {
		return nil, err
	}
	r, ok := s.Recs[p]
	if !ok {
		return nil, hackpadfs.ErrNotExist
	}
	var getData func() (blob.Blob, error)
	var getDirNames func() ([]string, error)
	if r.Mode.IsDir() {
		getDirNames = func() ([]string, error) {
			s.mu.Lock()
			defer s.mu.Unlock()
			if err := s.tick("list " + p); err != nil {
				return nil, err
			}
			return s.childrenLocked(p), nil
		}
	} else if s.Eager {
		snapshot := append([]byte(nil), r.Data...)
		getData = func() (blob.Blob, error) { return blob.NewBytes(append([]byte(nil), snapshot...)), nil }
	} else {
		getData = func() (blob.Blob, error) {
			s.mu.Lock()
			defer s.mu.Unlock()
			if err := s.tick("data " + p); err != nil {
				return nil, err
			}
			cur, ok := s.Recs[p]
			if !ok {
				return nil, hackpadfs.ErrNotExist
			}
			return blob.NewBytes(append([]byte(nil), cur.Data...)), nil
		}
	}
	return keyvalue.NewBaseFileRecord(int64(len(r.Data)), r.ModTime, r.Mode, nil, getData, getDirNames), nil
}

func (s *Store) childrenLocked(p string) []string {
	prefix := p + "/"
	if p == "." {
		prefix = ""
	}
	var names []string
	for k := range s.Recs {
		if k == "." || !strings.HasPrefix(k, prefix) {
			continue
		}
		rest := strings.TrimPrefix(k, prefix)
		if rest != "" && !strings.Contains(rest, "/") {
			names = append(names, rest)
		}
	}
	sort.Strings(names)
	return names
}

// Set implements keyvalue.Store.
func (s *Store) Set(ctx context.Context, p string, src keyvalue.FileRecord) error {
	// read the source before taking the lock: src.Data() may call back into this store
	var rec Rec
	if src != nil {
		rec.Mode = src.Mode()
		rec.ModTime = src.ModTime()
		if src.Mode().IsRegular() {
			b, err := src.Data()
			if err != nil {
				return err
			}
			rec.Data = append([]byte(nil), b.Bytes()...)
		}
	}
	s.mu.Lock()
	defer s.mu.Unlock()
	if err := s.tick("set " + p); err != nil {
		return err
	}
	if src == nil {
		delete(s.Recs, p)
		return nil
	}
	s.Recs[p] = rec
	return nil
}

// Keys returns the stored keys, sorted.
func (s *Store) Keys() []string {
	s.mu.Lock()
	defer s.mu.Unlock()
	var ks []string
	for k := range s.Recs {
		ks = append(ks, k)
	}
	sort.Strings(ks)
	return ks
}
