// Package ops defines the shared operation alphabet, its interpreter against any
// hackpadfs.FS (through the package helpers) and against the raw Go os package
// (the reference), and whole-tree snapshots.
package ops

import (
	"errors"
	"fmt"
	"io"
	"os"
	"path"
	"sort"
	"strings"
	"syscall"
	"time"

	"github.com/hack-pad/hackpadfs"

	"verifharness/internal/vf"
)

// Op is one generated operation. It is JSON-serialisable and forms the replay format.
type Op struct {
	K    string `json:"k"`
	P    string `json:"p,omitempty"`
	P2   string `json:"p2,omitempty"`
	Flag int    `json:"flag,omitempty"`
	Perm uint32 `json:"perm,omitempty"`
	Data []byte `json:"data,omitempty"`
	Sec  int64  `json:"sec,omitempty"`
	N    int    `json:"n,omitempty"`
	// Fault (C03): the store behind the file system fails the Fault-th call it gets during this step (0 = none)
	Fault int `json:"fault,omitempty"`
}

func (o Op) String() string {
	if o.Fault > 0 {
		f := o.Fault
		o.Fault = 0
		return fmt.Sprintf("%s[store call %d fails]", o.String(), f)
	}
	switch o.K {
	case "mkdir", "mkdirall", "chmod":
		return fmt.Sprintf("%s(%q,%#o)", o.K, o.P, o.Perm)
	case "openfile":
		return fmt.Sprintf("openfile(%q,%s,%#o,write=%q)", o.P, FlagString(o.Flag), o.Perm, o.Data)
	case "writefile":
		return fmt.Sprintf("writefile(%q,%q,%#o)", o.P, o.Data, o.Perm)
	case "rename", "symlink":
		return fmt.Sprintf("%s(%q,%q)", o.K, o.P, o.P2)
	case "chtimes":
		return fmt.Sprintf("chtimes(%q,%d)", o.P, o.Sec)
	default:
		return fmt.Sprintf("%s(%q)", o.K, o.P)
	}
}

// FlagString renders open flags.
func FlagString(f int) string {
	var s []string
	switch f & 3 {
	case os.O_RDONLY:
		s = append(s, "RDONLY")
	case os.O_WRONLY:
		s = append(s, "WRONLY")
	case os.O_RDWR:
		s = append(s, "RDWR")
	default:
		s = append(s, "ACC3")
	}
	if f&os.O_CREATE != 0 {
		s = append(s, "CREATE")
	}
	if f&os.O_EXCL != 0 {
		s = append(s, "EXCL")
	}
	if f&os.O_TRUNC != 0 {
		s = append(s, "TRUNC")
	}
	if f&os.O_APPEND != 0 {
		s = append(s, "APPEND")
	}
	return strings.Join(s, "|")
}

// Ent is a directory entry as returned by a listing.
type Ent struct {
	Name  string
	IsDir bool
}

// Info is the compared part of a FileInfo.
// permBits: the permission bits and the three special bits a Chmod can set (set-uid, set-gid, sticky).
func permBits(m hackpadfs.FileMode) uint32 {
	return uint32(m & (hackpadfs.ModePerm | hackpadfs.ModeSetuid | hackpadfs.ModeSetgid | hackpadfs.ModeSticky))
}

// SpecialBits are the mode bits beyond rwx that Chmod carries.
var SpecialBits = []uint32{uint32(hackpadfs.ModeSetuid), uint32(hackpadfs.ModeSetgid), uint32(hackpadfs.ModeSticky)}

type Info struct {
	Name  string
	IsDir bool
	Perm  uint32
	Size  int64 // regular files only
	Mtime int64
}

// Res is the observable outcome of one operation.
type Res struct {
	Err   error
	Panic string
	Hung  bool
	Data  []byte
	Ents  []Ent
	// Partial: the entries a FAILED listing handed back together with its error (a listing that broke off)
	Partial []Ent
	Info    *Info
	// WriteErr/CloseErr of an openfile op are folded into Err (first failure wins); Stage says where.
	Stage string
}

// OK reports success.
func (r Res) OK() bool { return r.Err == nil && r.Panic == "" && !r.Hung }

func (r Res) String() string {
	switch {
	case r.Hung:
		return "HUNG"
	case r.Panic != "":
		return r.Panic
	case r.Err != nil:
		return fmt.Sprintf("error(%s%v)", r.Stage, r.Err)
	}
	s := "ok"
	if r.Data != nil {
		s += fmt.Sprintf(" data=%q", r.Data)
	}
	if r.Ents != nil {
		s += fmt.Sprintf(" ents=%v", r.Ents)
	}
	if r.Info != nil {
		s += fmt.Sprintf(" info=%+v", *r.Info)
	}
	return s
}

func toInfo(fi hackpadfs.FileInfo) *Info {
	if fi == nil {
		return nil
	}
	in := &Info{Name: fi.Name(), IsDir: fi.IsDir(), Perm: permBits(fi.Mode()), Mtime: fi.ModTime().Unix()}
	if fi.Mode().IsRegular() {
		in.Size = fi.Size()
	}
	return in
}

func toEnts(des []hackpadfs.DirEntry) []Ent {
	ents := make([]Ent, 0, len(des))
	for _, de := range des {
		ents = append(ents, Ent{Name: de.Name(), IsDir: de.IsDir()})
	}
	return ents
}

// ApplyFS performs op on fs through the hackpadfs helpers, under the watchdog.
func ApplyFS(fs hackpadfs.FS, op Op) Res {
	var res Res
	p, hung := vf.Guard(func() { res = applyFS(fs, op) })
	if hung {
		return Res{Hung: true}
	}
	if p != "" {
		return Res{Panic: p}
	}
	return res
}

func applyFS(fs hackpadfs.FS, op Op) (res Res) {
	switch op.K {
	case "mkdir":
		res.Err = hackpadfs.Mkdir(fs, op.P, hackpadfs.FileMode(op.Perm))
	case "mkdirall":
		res.Err = hackpadfs.MkdirAll(fs, op.P, hackpadfs.FileMode(op.Perm))
	case "openfile", "create":
		var f hackpadfs.File
		var err error
		if op.K == "create" {
			f, err = hackpadfs.Create(fs, op.P)
		} else {
			f, err = hackpadfs.OpenFile(fs, op.P, op.Flag, hackpadfs.FileMode(op.Perm))
		}
		if err != nil {
			res.Err, res.Stage = err, "open:"
			return
		}
		if f == nil {
			res.Err, res.Stage = errors.New("nil file with nil error"), "open:"
			return
		}
		if op.Data != nil {
			n, werr := hackpadfs.WriteFile(f, op.Data)
			if werr == nil && n != len(op.Data) {
				werr = fmt.Errorf("short write %d of %d without error", n, len(op.Data))
			}
			if werr != nil {
				res.Err, res.Stage = werr, "write:"
			}
		}
		if cerr := f.Close(); cerr != nil && res.Err == nil {
			res.Err, res.Stage = cerr, "close:"
		}
	case "writefile":
		res.Err = hackpadfs.WriteFullFile(fs, op.P, op.Data, hackpadfs.FileMode(op.Perm))
	case "remove":
		res.Err = hackpadfs.Remove(fs, op.P)
	case "removeall":
		res.Err = hackpadfs.RemoveAll(fs, op.P)
	case "rename":
		res.Err = hackpadfs.Rename(fs, op.P, op.P2)
	case "symlink":
		res.Err = hackpadfs.Symlink(fs, op.P, op.P2)
	case "chmod":
		res.Err = hackpadfs.Chmod(fs, op.P, hackpadfs.FileMode(op.Perm))
	case "chown":
		res.Err = hackpadfs.Chown(fs, op.P, os.Getuid(), os.Getgid())
	case "chownkeep":
		// -1, -1: "leave both as they are" -- nothing to change, but the name is judged all the same
		res.Err = hackpadfs.Chown(fs, op.P, -1, -1)
	case "chownids":
		// two different ids (the process's own ones leave nothing to see, and equal ones hide which is which)
		res.Err = hackpadfs.Chown(fs, op.P, 1234, 5678)
	case "chtimes":
		t, at := time.Unix(op.Sec, 0), time.Unix(op.Sec, 0)
		if op.Sec == 0 {
			// the zero modification time (a degenerate argument value: "leave it unchanged"); the access time stays a real
			// one, because with BOTH omitted Linux answers success without even looking the file up
			t, at = time.Time{}, time.Unix(1_200_000_000, 0)
		}
		res.Err = hackpadfs.Chtimes(fs, op.P, at, t)
	case "stat":
		fi, err := hackpadfs.Stat(fs, op.P)
		res.Err = err
		if err == nil {
			res.Info = toInfo(fi)
		}
	case "lstat":
		fi, err := hackpadfs.Lstat(fs, op.P)
		res.Err = err
		if err == nil {
			res.Info = toInfo(fi)
		}
	case "lstatorstat":
		fi, err := hackpadfs.LstatOrStat(fs, op.P)
		res.Err = err
		if err == nil {
			res.Info = toInfo(fi)
		}
	case "open":
		f, err := fs.Open(op.P)
		res.Err = err
		if err == nil {
			fi, serr := f.Stat()
			if serr == nil {
				res.Info = toInfo(fi)
			}
			_ = f.Close()
		}
	case "sub":
		_, res.Err = hackpadfs.Sub(fs, op.P)
	case "readdir":
		des, err := hackpadfs.ReadDir(fs, op.P)
		res.Err = err
		if err != nil && len(des) > 0 {
			res.Partial = toEnts(des)
		}
		if err == nil {
			res.Ents = toEnts(des)
			if res.Ents == nil {
				res.Ents = []Ent{}
			}
		}
	case "readfile":
		b, err := hackpadfs.ReadFile(fs, op.P)
		res.Err = err
		if err == nil {
			res.Data = b
			if res.Data == nil {
				res.Data = []byte{}
			}
		}
	default:
		panic("unknown op kind " + op.K)
	}
	return
}

// OSPath maps an FS name to the reference directory.
func OSPath(root, name string) string {
	if name == "." {
		return root
	}
	return root + "/" + name
}

// ApplyOS performs op with the raw os package below root (the reference; contains no hackpadfs code).
func ApplyOS(root string, op Op) (res Res) {
	p := OSPath(root, op.P)
	switch op.K {
	case "mkdir":
		res.Err = os.Mkdir(p, os.FileMode(op.Perm))
	case "mkdirall":
		res.Err = os.MkdirAll(p, os.FileMode(op.Perm))
	case "openfile", "create":
		var f *os.File
		var err error
		if op.K == "create" {
			f, err = os.Create(p)
		} else {
			f, err = os.OpenFile(p, op.Flag, os.FileMode(op.Perm))
		}
		if err != nil {
			res.Err, res.Stage = err, "open:"
			return
		}
		if op.Data != nil {
			if _, werr := f.Write(op.Data); werr != nil {
				res.Err, res.Stage = werr, "write:"
			}
		}
		if cerr := f.Close(); cerr != nil && res.Err == nil {
			res.Err, res.Stage = cerr, "close:"
		}
	case "writefile":
		res.Err = os.WriteFile(p, op.Data, os.FileMode(op.Perm))
	case "remove":
		res.Err = os.Remove(p)
	case "removeall":
		res.Err = os.RemoveAll(p)
	case "rename":
		res.Err = os.Rename(p, OSPath(root, op.P2))
	case "symlink":
		res.Err = os.Symlink(p, OSPath(root, op.P2))
	case "chmod":
		res.Err = os.Chmod(p, os.FileMode(op.Perm))
	case "chown":
		res.Err = os.Chown(p, os.Getuid(), os.Getgid())
	case "chownkeep":
		res.Err = os.Chown(p, -1, -1)
	case "chownids":
		res.Err = os.Chown(p, 1234, 5678)
	case "chtimes":
		t, at := time.Unix(op.Sec, 0), time.Unix(op.Sec, 0)
		if op.Sec == 0 {
			t, at = time.Time{}, time.Unix(1_200_000_000, 0)
		}
		res.Err = os.Chtimes(p, at, t)
	case "stat", "lstatorstat", "open":
		fi, err := os.Stat(p)
		res.Err = err
		if err == nil {
			res.Info = toInfo(fi)
			if op.P == "." {
				res.Info.Name = "."
			}
		}
	case "lstat":
		fi, err := os.Lstat(p)
		res.Err = err
		if err == nil {
			res.Info = toInfo(fi)
			if op.P == "." {
				res.Info.Name = "."
			}
		}
	case "readdir":
		des, err := os.ReadDir(p)
		res.Err = err
		if err == nil {
			res.Ents = toEnts(des)
			if res.Ents == nil {
				res.Ents = []Ent{}
			}
		}
	case "readfile":
		b, err := os.ReadFile(p)
		res.Err = err
		if err == nil {
			res.Data = b
			if res.Data == nil {
				res.Data = []byte{}
			}
		}
	default:
		panic("unknown op kind " + op.K)
	}
	return
}

// ---------------------------------------------------------------- snapshots

// Node is one entry of a tree snapshot.
type Node struct {
	Kind byte // 'd', 'f', '?'
	Perm uint32
	Size int64
	Data string
	Err  string // non-empty when the entry could not be examined
	// Own is "uid:gid" when the entry's owner is known (FileInfo.Sys() is a *syscall.Stat_t) and is not this process
	Own string
}

// own reports a foreign owner from a FileInfo's Sys().
func own(sys interface{}) string {
	st, ok := sys.(*syscall.Stat_t)
	if !ok || st == nil || (int(st.Uid) == os.Getuid() && int(st.Gid) == os.Getgid()) {
		return ""
	}
	return fmt.Sprintf("%d:%d", st.Uid, st.Gid)
}

// Snap is a whole-tree snapshot keyed by FS path ("." is the root).
type Snap map[string]Node

// SnapFS walks fs from the root with ReadDir + Stat + ReadFile (helpers), under the watchdog.
func SnapFS(fs hackpadfs.FS) (snap Snap, problem string) {
	p, hung := vf.Guard(func() {
		snap = Snap{}
		walkFS(fs, ".", snap, 0)
	})
	if hung {
		return snap, "snapshot did not terminate"
	}
	return snap, p
}

func walkFS(fs hackpadfs.FS, name string, snap Snap, depth int) {
	if depth > 12 {
		snap[name] = Node{Kind: '?', Err: "too deep"}
		return
	}
	fi, err := hackpadfs.Stat(fs, name)
	if err != nil {
		snap[name] = Node{Kind: '?', Err: "stat: " + errClass(err)}
		return
	}
	if fi.IsDir() {
		n := Node{Kind: 'd', Perm: permBits(fi.Mode()), Own: own(fi.Sys())}
		des, err := hackpadfs.ReadDir(fs, name)
		if err != nil {
			n.Err = "readdir: " + errClass(err)
		}
		snap[name] = n
		for _, de := range des {
			child := de.Name()
			if name != "." {
				child = name + "/" + de.Name()
			}
			if _, dup := snap[child]; dup {
				snap[child+"#dup"] = Node{Kind: '?', Err: "listed twice"}
				continue
			}
			walkFS(fs, child, snap, depth+1)
		}
		return
	}
	n := Node{Kind: 'f', Perm: permBits(fi.Mode()), Size: fi.Size(), Own: own(fi.Sys())}
	if !fi.Mode().IsRegular() {
		n.Kind = '?'
	}
	b, err := hackpadfs.ReadFile(fs, name)
	if err != nil {
		n.Err = "readfile: " + errClass(err)
	}
	n.Data = string(b)
	snap[name] = n
}

// SnapOS snapshots the reference directory with raw os calls.
func SnapOS(root string) Snap {
	snap := Snap{}
	walkOS(root, ".", snap)
	return snap
}

func walkOS(root, name string, snap Snap) {
	p := OSPath(root, name)
	fi, err := os.Lstat(p)
	if err != nil {
		snap[name] = Node{Kind: '?', Err: "stat: " + errClass(err)}
		return
	}
	if fi.IsDir() {
		n := Node{Kind: 'd', Perm: permBits(fi.Mode()), Own: own(fi.Sys())}
		des, err := os.ReadDir(p)
		if err != nil {
			n.Err = "readdir: " + errClass(err)
		}
		snap[name] = n
		for _, de := range des {
			child := de.Name()
			if name != "." {
				child = name + "/" + de.Name()
			}
			walkOS(root, child, snap)
		}
		return
	}
	n := Node{Kind: 'f', Perm: permBits(fi.Mode()), Size: fi.Size(), Own: own(fi.Sys())}
	if !fi.Mode().IsRegular() {
		n.Kind = '?'
		snap[name] = n
		return
	}
	b, err := os.ReadFile(p)
	if err != nil {
		n.Err = "readfile: " + errClass(err)
	}
	n.Data = string(b)
	snap[name] = n
}

// Diff returns a description of the first differences between two snapshots ("" if equal).
// The root's own permission bits are not compared.
func Diff(a, b Snap, aName, bName string) string {
	keys := map[string]bool{}
	for k := range a {
		keys[k] = true
	}
	for k := range b {
		keys[k] = true
	}
	var ks []string
	for k := range keys {
		ks = append(ks, k)
	}
	sort.Strings(ks)
	var out []string
	for _, k := range ks {
		na, oka := a[k]
		nb, okb := b[k]
		switch {
		case !oka:
			out = append(out, fmt.Sprintf("%q only in %s (%s)", k, bName, nb))
		case !okb:
			out = append(out, fmt.Sprintf("%q only in %s (%s)", k, aName, na))
		default:
			if k == "." {
				na.Perm, nb.Perm = 0, 0
			}
			if na != nb {
				out = append(out, fmt.Sprintf("%q: %s=%s %s=%s", k, aName, na, bName, nb))
			}
		}
		if len(out) >= 4 {
			break
		}
	}
	return strings.Join(out, "; ")
}

func (n Node) String() string {
	s := fmt.Sprintf("%c %#o", n.Kind, n.Perm)
	if n.Kind == 'f' {
		s += fmt.Sprintf(" size=%d %q", n.Size, n.Data)
	}
	if n.Err != "" {
		s += " ERR[" + n.Err + "]"
	}
	return s
}

// Sentinels compared by the checks.
var Sentinels = []struct {
	Name string
	Err  error
}{
	{"NotExist", hackpadfs.ErrNotExist},
	{"Exist", hackpadfs.ErrExist},
	{"IsDir", hackpadfs.ErrIsDir},
	{"NotDir", hackpadfs.ErrNotDir},
	{"NotEmpty", hackpadfs.ErrNotEmpty},
	{"Invalid", hackpadfs.ErrInvalid},
	{"Closed", hackpadfs.ErrClosed},
	{"NotImplemented", hackpadfs.ErrNotImplemented},
	{"Permission", hackpadfs.ErrPermission},
}

// errClass names the sentinels an error matches.
func errClass(err error) string {
	if err == nil {
		return "nil"
	}
	var s []string
	for _, se := range Sentinels {
		if errors.Is(err, se.Err) {
			s = append(s, se.Name)
		}
	}
	if errors.Is(err, io.EOF) {
		s = append(s, "EOF")
	}
	if len(s) == 0 {
		return "other"
	}
	return strings.Join(s, "+")
}

// ErrClass is the exported form of errClass.
func ErrClass(err error) string { return errClass(err) }

// Closure returns every path of depth <= depth over names, plus ".".
func Closure(names []string, depth int) []string {
	out := []string{"."}
	var level []string
	for _, n := range names {
		level = append(level, n)
	}
	for d := 1; d <= depth; d++ {
		out = append(out, level...)
		if d == depth {
			break
		}
		var next []string
		for _, p := range level {
			for _, n := range names {
				next = append(next, path.Join(p, n))
			}
		}
		level = next
	}
	return out
}
