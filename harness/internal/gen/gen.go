// Package gen holds the shared generators: paths drawn relative to a reference tree,
// permission bits, open flags, payloads and whole operations.
package gen

import (
	"os"
	"path"
	"sort"
	"strings"

	"pgregory.net/rapid"

	"verifharness/internal/ops"
)

// Names is the default name alphabet.
var Names = []string{"a", "ab", "b"} // "ab" has "a" as a string prefix: exposes prefix tests that forget the element boundary

// Exotic holds valid but unusual element names: leading dots, adjacent dots inside a name (not the ".." element), a space,
// a non-ASCII letter, a backslash (an ordinary character in an FS path), a leading dash, a trailing dot, upper case.
var Exotic = []string{".a", "..a", "a..b", "...", "a b", "\u00e4", "a\\b", "-a", "a.", "A", ".ab"}

// Alphabet draws the name alphabet of one case: mostly the default, otherwise {a, <exotic>, b}.
func Alphabet(t *rapid.T) []string {
	if rapid.IntRange(0, 9).Draw(t, "alphabet") < 6 {
		return Names
	}
	return []string{"a", rapid.SampledFrom(Exotic).Draw(t, "exotic"), "b"}
}

// Elements returns the distinct path elements of the given paths plus the default names, sorted (the alphabet a recorded
// history was drawn from, for closures in replay).
func Elements(paths ...string) []string {
	set := map[string]bool{}
	for _, n := range Names {
		set[n] = true
	}
	for _, p := range paths {
		for _, e := range strings.Split(p, "/") {
			if e != "" && e != "." {
				set[e] = true
			}
		}
	}
	var out []string
	for e := range set {
		out = append(out, e)
	}
	sort.Strings(out)
	return out
}

// Tree is the view of the reference state the generators draw against.
type Tree struct {
	Dirs  []string // existing directories (incl. ".")
	Files []string // existing regular files
}

// TreeOf derives a Tree from a snapshot.
func TreeOf(s ops.Snap) Tree {
	var t Tree
	for p, n := range s {
		switch n.Kind {
		case 'd':
			t.Dirs = append(t.Dirs, p)
		case 'f':
			t.Files = append(t.Files, p)
		}
	}
	sort.Strings(t.Dirs)
	sort.Strings(t.Files)
	return t
}

func join(dir, name string) string {
	if dir == "." {
		return name
	}
	return dir + "/" + name
}

// Depth returns the number of elements of p ("." = 0).
func Depth(p string) int {
	if p == "." {
		return 0
	}
	return strings.Count(p, "/") + 1
}

func (tr Tree) exists(p string) bool {
	for _, d := range tr.Dirs {
		if d == p {
			return true
		}
	}
	for _, f := range tr.Files {
		if f == p {
			return true
		}
	}
	return false
}

// Path draws a valid path with a constructed (not filtered) relation to the tree:
// existing, missing child of an existing directory, through a regular file, or uniformly random.
// allowRoot controls whether "." may be returned.
func Path(t *rapid.T, tr Tree, names []string, maxDepth int, allowRoot bool, label string) string {
	all := append(append([]string{}, tr.Dirs...), tr.Files...)
	if !allowRoot {
		var f []string
		for _, p := range all {
			if p != "." {
				f = append(f, p)
			}
		}
		all = f
	}
	mode := rapid.IntRange(0, 99).Draw(t, label+".mode")
	switch {
	case mode < 50 && len(all) > 0:
		return rapid.SampledFrom(all).Draw(t, label+".existing")
	case mode < 78:
		d := rapid.SampledFrom(tr.Dirs).Draw(t, label+".dir")
		n := rapid.SampledFrom(names).Draw(t, label+".name")
		if Depth(d) < maxDepth {
			return join(d, n)
		}
		return d
	case mode < 90 && len(tr.Files) > 0:
		f := rapid.SampledFrom(tr.Files).Draw(t, label+".file")
		n := rapid.SampledFrom(names).Draw(t, label+".name")
		p := join(f, n)
		if rapid.IntRange(0, 3).Draw(t, label+".deeper") == 0 {
			p = join(p, rapid.SampledFrom(names).Draw(t, label+".name2"))
		}
		return p
	default:
		return Random(t, names, maxDepth, allowRoot, label)
	}
}

// Random draws a uniformly random valid path.
func Random(t *rapid.T, names []string, maxDepth int, allowRoot bool, label string) string {
	lo := 1
	if allowRoot {
		lo = 0
	}
	d := rapid.IntRange(lo, maxDepth).Draw(t, label+".depth")
	if d == 0 {
		return "."
	}
	p := ""
	for i := 0; i < d; i++ {
		n := rapid.SampledFrom(names).Draw(t, label+".el")
		if p == "" {
			p = n
		} else {
			p += "/" + n
		}
	}
	return p
}

// Second draws the second name of a two-name operation with a constructed relation to the first.
func Second(t *rapid.T, tr Tree, first string, names []string, maxDepth int, allowRoot bool, label string) string {
	rel := rapid.IntRange(0, 99).Draw(t, label+".rel")
	switch {
	case rel < 8:
		return first // same
	case rel < 20 && first != ".": // sibling
		return join(path.Dir(first), rapid.SampledFrom(names).Draw(t, label+".sib"))
	case rel < 32 && first != ".": // new inside old
		p := join(first, rapid.SampledFrom(names).Draw(t, label+".in"))
		if rapid.Bool().Draw(t, label+".in2") {
			p = join(p, rapid.SampledFrom(names).Draw(t, label+".in3"))
		}
		return p
	case rel < 40 && first != "." && path.Dir(first) != ".": // old inside new
		return path.Dir(first)
	case rel < 44 && allowRoot:
		return "."
	default:
		return Path(t, tr, names, maxDepth, allowRoot, label)
	}
}

// Perm draws permission bits; sometimes with type/setuid/sticky bits OR-ed in (the code must treat them like os).
func Perm(t *rapid.T, label string) uint32 {
	var p uint32
	switch rapid.IntRange(0, 9).Draw(t, label+".kind") {
	case 0, 1, 2:
		p = rapid.SampledFrom([]uint32{0o755, 0o644, 0o700, 0o600, 0o777, 0o666}).Draw(t, label+".common")
	default:
		p = uint32(rapid.IntRange(0, 0o777).Draw(t, label))
	}
	return p
}

// Flags draws an OpenFile flag set from {RDONLY,WRONLY,RDWR} x CREATE x EXCL x TRUNC x APPEND.
func Flags(t *rapid.T, label string) int {
	f := rapid.SampledFrom([]int{os.O_RDONLY, os.O_WRONLY, os.O_RDWR}).Draw(t, label+".acc")
	if rapid.Bool().Draw(t, label+".create") {
		f |= os.O_CREATE
	}
	if rapid.IntRange(0, 3).Draw(t, label+".excl") == 0 {
		f |= os.O_EXCL
	}
	if rapid.IntRange(0, 2).Draw(t, label+".trunc") == 0 {
		f |= os.O_TRUNC
	}
	if rapid.IntRange(0, 2).Draw(t, label+".append") == 0 {
		f |= os.O_APPEND
	}
	return f
}

// Payload draws file contents.
func Payload(t *rapid.T, max int, label string) []byte {
	b := rapid.SliceOfN(rapid.ByteRange('a', 'z'), 0, max).Draw(t, label)
	if b == nil {
		b = []byte{}
	}
	return b
}

// OpKinds is the namespace-operation alphabet of C01 (weights by repetition).
var OpKinds = []string{
	"mkdir", "mkdir", "mkdirall", "openfile", "openfile", "openfile", "create", "writefile", "writefile",
	"remove", "remove", "removeall", "rename", "rename", "rename", "chmod", "chtimes", "stat", "lstatorstat", "readdir", "readfile",
}

// Op draws one namespace operation against the tree.
// rootMut controls whether removing / renaming the root may be generated.
func Op(t *rapid.T, tr Tree, names []string, maxDepth int, rootMut bool) ops.Op {
	k := rapid.SampledFrom(OpKinds).Draw(t, "kind")
	op := ops.Op{K: k}
	switch k {
	case "mkdir", "mkdirall":
		op.P = Path(t, tr, names, maxDepth, true, "p")
		op.Perm = Perm(t, "perm")
	case "openfile":
		op.P = Path(t, tr, names, maxDepth, true, "p")
		op.Flag = Flags(t, "flag")
		op.Perm = Perm(t, "perm")
		if rapid.Bool().Draw(t, "dowrite") {
			op.Data = Payload(t, 12, "data")
		}
	case "create":
		op.P = Path(t, tr, names, maxDepth, true, "p")
		if rapid.Bool().Draw(t, "dowrite") {
			op.Data = Payload(t, 12, "data")
		}
	case "writefile":
		op.P = Path(t, tr, names, maxDepth, true, "p")
		op.Perm = Perm(t, "perm")
		op.Data = Payload(t, 40, "data")
	case "remove", "removeall":
		op.P = Path(t, tr, names, maxDepth, rootMut, "p")
	case "rename":
		op.P = Path(t, tr, names, maxDepth, rootMut, "p")
		op.P2 = Second(t, tr, op.P, names, maxDepth, true, "p2")
	case "chmod":
		op.P = Path(t, tr, names, maxDepth, true, "p")
		op.Perm = Perm(t, "perm")
		if rapid.IntRange(0, 9).Draw(t, "typebits") == 0 {
			op.Perm |= uint32(rapid.SampledFrom([]os.FileMode{os.ModeDir, os.ModeSetuid, os.ModeSticky, os.ModeSymlink}).Draw(t, "tb"))
		}
	case "chtimes":
		op.P = Path(t, tr, names, maxDepth, true, "p")
		op.Sec = int64(rapid.IntRange(1_000_000_000, 2_000_000_000).Draw(t, "sec"))
		if rapid.IntRange(0, 7).Draw(t, "zerotime") == 0 {
			op.Sec = 0 // the zero time.Time: os.Chtimes leaves the times unchanged
		}
	case "stat", "lstatorstat", "readdir", "readfile":
		op.P = Path(t, tr, names, maxDepth, true, "p")
	}
	return op
}
