// Package masks provides FS wrappers that expose exactly a chosen subset of the optional hackpadfs
// interfaces of an inner (full-capability) FS, count every primitive call and can fail the i-th one.
package masks

import (
	"errors"
	"io"
	"sort"
	"strings"
	"sync"
	"time"

	"github.com/hack-pad/hackpadfs"
)

// ErrInjected is the injected primitive failure; it matches no hackpadfs sentinel.
var ErrInjected = errors.New("verif: injected primitive failure")

// Hooks counts primitive calls and injects a failure.
type Hooks struct {
	mu     sync.Mutex
	Calls  int
	FailAt int // 1-based index of the primitive call to fail (0 = none)
	Fired  string
	Log    []string
	// Vanished: the injected failure is "this name does not exist (any more)" -- a typed PathError matching ErrNotExist,
	// what a primitive reports when another process removed the entry in between -- instead of the opaque ErrInjected.
	Vanished bool
	// Sticky: every call from the FailAt-th on fails (what broke stays broken), not just that one.
	Sticky bool
	// FiredName is the path the failed primitive was called with ("" for calls on files opened before names were tracked).
	FiredName string
}

func (h *Hooks) tick(what string) error { return h.tickN(what, "") }

func (h *Hooks) tickN(what, name string) error {
	h.mu.Lock()
	defer h.mu.Unlock()
	h.Calls++
	h.Log = append(h.Log, what)
	if h.FailAt > 0 && (h.Calls == h.FailAt || (h.Sticky && h.Calls > h.FailAt)) {
		if h.Fired == "" {
			h.Fired = what
			h.FiredName = name
		}
		if h.Vanished {
			return &hackpadfs.PathError{Op: strings.ToLower(strings.TrimPrefix(what, "File.")), Path: name, Err: hackpadfs.ErrNotExist}
		}
		return ErrInjected
	}
	return nil
}

func (h *Hooks) note(what string) {
	h.mu.Lock()
	h.Log = append(h.Log, what)
	h.mu.Unlock()
}

type core struct {
	inner hackpadfs.FS
	h     *Hooks
}

// Open is the one method every FS has.
func (c *core) Open(name string) (hackpadfs.File, error) {
	if err := c.h.tickN("Open", name); err != nil {
		return nil, err
	}
	f, err := c.inner.Open(name)
	return c.h.wrapNamed(f, err, 0, name)
}

// Supported returns the interfaces of the given list that inner implements (MountFS is always available: the
// mask then presents itself as a mount FS routing every name to the inner FS unchanged).
func Supported(inner hackpadfs.FS, ifaces []string) []string {
	var out []string
	for _, i := range ifaces {
		ok := false
		switch i {
		case "SubFS":
			_, ok = inner.(hackpadfs.SubFS)
		case "OpenFileFS":
			_, ok = inner.(hackpadfs.OpenFileFS)
		case "CreateFS":
			_, ok = inner.(hackpadfs.CreateFS)
		case "MkdirFS":
			_, ok = inner.(hackpadfs.MkdirFS)
		case "MkdirAllFS":
			_, ok = inner.(hackpadfs.MkdirAllFS)
		case "RemoveFS":
			_, ok = inner.(hackpadfs.RemoveFS)
		case "RemoveAllFS":
			_, ok = inner.(hackpadfs.RemoveAllFS)
		case "RenameFS":
			_, ok = inner.(hackpadfs.RenameFS)
		case "StatFS":
			_, ok = inner.(hackpadfs.StatFS)
		case "LstatFS":
			_, ok = inner.(hackpadfs.LstatFS)
		case "ChmodFS":
			_, ok = inner.(hackpadfs.ChmodFS)
		case "ChownFS":
			_, ok = inner.(hackpadfs.ChownFS)
		case "ChtimesFS":
			_, ok = inner.(hackpadfs.ChtimesFS)
		case "ReadDirFS":
			_, ok = inner.(hackpadfs.ReadDirFS)
		case "ReadFileFS":
			_, ok = inner.(hackpadfs.ReadFileFS)
		case "WriteFileFS":
			_, ok = inner.(hackpadfs.WriteFileFS)
		case "SymlinkFS":
			_, ok = inner.(hackpadfs.SymlinkFS)
		case "MountFS":
			ok = true
		}
		if ok {
			out = append(out, i)
		}
	}
	return out
}

var order = []string{"SubFS", "OpenFileFS", "CreateFS", "MkdirFS", "MkdirAllFS", "RemoveFS", "RemoveAllFS", "RenameFS", "StatFS", "LstatFS",
	"ChmodFS", "ChownFS", "ChtimesFS", "ReadDirFS", "ReadFileFS", "WriteFileFS", "SymlinkFS", "MountFS"}

// New returns a wrapper of inner exposing exactly the interfaces in set (plus Open). nil if no such type was generated.
func New(inner hackpadfs.FS, set []string, h *Hooks) hackpadfs.FS {
	s := append([]string{}, set...)
	idx := map[string]int{}
	for i, o := range order {
		idx[o] = i
	}
	sort.Slice(s, func(i, j int) bool { return idx[s[i]] < idx[s[j]] })
	return newMask(strings.Join(s, ","), &core{inner: inner, h: h})
}

// ------------------------------------------------------------------ files

// mfile wraps a file handed out by a mask: every method is a primitive call. It exposes all optional
// file interfaces and forwards them through the hackpadfs file helpers (so an inner file lacking one
// still answers ErrNotImplemented).
type mfile struct {
	inner    hackpadfs.File
	h        *Hooks
	writable bool
	name     string
}

func (h *Hooks) wrapNamed(f hackpadfs.File, err error, flag int, name string) (hackpadfs.File, error) {
	w, err := h.wrapFile(f, err, flag)
	if m, ok := w.(*mfile); ok {
		m.name = name
	}
	return w, err
}

func (h *Hooks) wrapFile(f hackpadfs.File, err error, flag int) (hackpadfs.File, error) {
	if err != nil || f == nil {
		return nil, err
	}
	return &mfile{inner: f, h: h, writable: flag&3 != 0}, nil
}

func (f *mfile) Stat() (hackpadfs.FileInfo, error) {
	if err := f.h.tickN("File.Stat", f.name); err != nil {
		return nil, err
	}
	return f.inner.Stat()
}

func (f *mfile) Read(p []byte) (int, error) {
	if err := f.h.tickN("File.Read", f.name); err != nil {
		return 0, err
	}
	return f.inner.Read(p)
}

func (f *mfile) Close() error {
	if f.writable {
		// closing a file that was written can lose data: a primitive the helper relies on
		if err := f.h.tickN("File.Close(w)", f.name); err != nil {
			// a failing close means the written data did not reach the store: model that by losing it
			_ = hackpadfs.TruncateFile(f.inner, 0)
			_ = f.inner.Close()
			return err
		}
	}
	return f.inner.Close()
}

func (f *mfile) Write(p []byte) (int, error) {
	if err := f.h.tickN("File.Write", f.name); err != nil {
		return 0, err
	}
	return hackpadfs.WriteFile(f.inner, p)
}

func (f *mfile) ReadDir(n int) ([]hackpadfs.DirEntry, error) {
	if err := f.h.tickN("File.ReadDir", f.name); err != nil {
		return nil, err
	}
	return hackpadfs.ReadDirFile(f.inner, n)
}

func (f *mfile) Seek(offset int64, whence int) (int64, error) {
	return hackpadfs.SeekFile(f.inner, offset, whence)
}

func (f *mfile) Truncate(size int64) error {
	if err := f.h.tickN("File.Truncate", f.name); err != nil {
		return err
	}
	return hackpadfs.TruncateFile(f.inner, size)
}

func (f *mfile) Chmod(mode hackpadfs.FileMode) error {
	if err := f.h.tickN("File.Chmod", f.name); err != nil {
		return err
	}
	return hackpadfs.ChmodFile(f.inner, mode)
}

func (f *mfile) Chown(uid, gid int) error {
	if err := f.h.tickN("File.Chown", f.name); err != nil {
		return err
	}
	return hackpadfs.ChownFile(f.inner, uid, gid)
}

func (f *mfile) Chtimes(atime, mtime time.Time) error {
	if err := f.h.tickN("File.Chtimes", f.name); err != nil {
		return err
	}
	return hackpadfs.ChtimesFile(f.inner, atime, mtime)
}

var _ io.Writer = &mfile{}
