// C03: the namespace is always a well-formed tree (no orphans, no hidden entries, everything terminates).
package c03

import (
	"encoding/json"
	"fmt"
	"io"
	"os"
	"path"
	"sort"
	"strings"
	"testing"

	"github.com/hack-pad/hackpadfs"
	"github.com/hack-pad/hackpadfs/keyvalue"
	"github.com/hack-pad/hackpadfs/mem"
	"github.com/hack-pad/hackpadfs/mount"
	"pgregory.net/rapid"

	"verifharness/internal/gen"
	"verifharness/internal/kvstore"
	"verifharness/internal/ops"
	"verifharness/internal/sit"
	"verifharness/internal/vf"
)

func TestMain(m *testing.M) {
	registerProbes()
	vf.Main(m)
}

// mountPoints of the "mount" subject.
var mountPoints = []string{"a", "a/b"}

// knownSig: the situation of an active known finding ("" if none).
func knownSig(s *subject, op ops.Op) string {
	if s.kind == "mount" && op.K == "removeall" && vf.Known("C03:removeall-above-mountpoint") {
		for _, mp := range mountPoints {
			if op.P == "." || strings.HasPrefix(mp, op.P+"/") || op.P == path.Dir(mp) {
				return "C03:removeall-above-mountpoint"
			}
		}
	}
	return ""
}

func registerProbes() {
	vf.RegisterProbe("C03:removeall-above-mountpoint", func() (bool, string) {
		s := newSubject("mount")
		res := ops.ApplyFS(s.fs, ops.Op{K: "removeall", P: "."})
		c, msg := invariant(s.fs, s.closure())
		return c != "", fmt.Sprintf("RemoveAll(\".\") through mount.FS = %v; then %s %s", res, c, msg)
	})
}

var closure = ops.Closure(gen.Names, 4)

type subject struct {
	names   []string // name alphabet (nil = gen.Names); the mount subject uses a name that has a mount point's name as a string prefix
	kind    string
	fs      hackpadfs.FS   // operations go here
	views   []hackpadfs.FS // invariants are evaluated on each of these
	store   *kvstore.Store // white-box keys (kvplain)
	rootMut bool           // whether removing/renaming "." is generated
	elems   []string       // path elements seen so far
	dyn     []string       // closure over elems when it exceeds the default alphabet
}

var closureAB = ops.Closure([]string{"a", "ab", "b"}, 4)

func (s *subject) closure() []string {
	if s.dyn != nil {
		return s.dyn
	}
	if s.names != nil {
		return closureAB
	}
	return closure
}

// observe extends the closure by path elements outside the default alphabet (per-case exotic alphabets, replayed histories).
func (s *subject) observe(paths ...string) {
	el := gen.Elements(append(append([]string{}, s.elems...), paths...)...)
	if len(el) != len(s.elems) {
		s.elems = el
		if len(el) > len(gen.Names) {
			s.dyn = ops.Closure(el, 4)
		}
	}
}

func (s *subject) alphabet() []string {
	if s.names != nil {
		return s.names
	}
	return gen.Names
}

func must(err error) {
	if err != nil {
		panic(err)
	}
}

func newSubject(kind string) *subject {
	switch kind {
	case "mem":
		fs, err := mem.NewFS()
		must(err)
		return &subject{kind: kind, fs: fs, views: []hackpadfs.FS{fs}, rootMut: true}
	case "kvplain":
		st := kvstore.New()
		fs, err := keyvalue.NewFS(st)
		must(err)
		return &subject{kind: kind, fs: fs, views: []hackpadfs.FS{fs}, store: st, rootMut: true}
	case "mount":
		root, err := mem.NewFS()
		must(err)
		must(root.Mkdir("a", 0o755))
		ma, err := mem.NewFS()
		must(err)
		must(ma.Mkdir("b", 0o755))
		mab, err := mem.NewFS()
		must(err)
		mfs, err := mount.NewFS(root)
		must(err)
		must(mfs.AddMount("a", ma))
		must(mfs.AddMount("a/b", mab))
		return &subject{kind: kind, fs: mfs, views: []hackpadfs.FS{mfs, root, ma, mab}, rootMut: true, names: []string{"a", "ab", "b"}}
	case "submem":
		parent, err := mem.NewFS()
		must(err)
		must(parent.MkdirAll("a/b", 0o755))
		must(hackpadfs.WriteFullFile(parent, "c", []byte("outside"), 0o644))
		view, err := hackpadfs.Sub(parent, "a")
		must(err)
		return &subject{kind: kind, fs: view, views: []hackpadfs.FS{view, parent}, rootMut: false}
	case "submount":
		root, err := mem.NewFS()
		must(err)
		must(root.MkdirAll("a/b", 0o755))
		mb, err := mem.NewFS()
		must(err)
		mfs, err := mount.NewFS(root)
		must(err)
		must(mfs.AddMount("a/b", mb))
		view, err := hackpadfs.Sub(mfs, "a/b")
		must(err)
		return &subject{kind: kind, fs: view, views: []hackpadfs.FS{view, mfs, root, mb}, rootMut: false}
	}
	panic(kind)
}

// invariant evaluates I1..I4 on fs. Returns (clause, message).
func invariant(fs hackpadfs.FS, paths []string) (string, string) {
	var clause, msg string
	pan, hung := vf.Guard(func() { clause, msg = invariantInner(fs, paths) })
	if hung {
		return "I5-invariant-hang", "invariant evaluation did not terminate"
	}
	if pan != "" {
		return "I5-invariant-panic", pan
	}
	return clause, msg
}

func isDirOf(fs hackpadfs.FS, p string) (exists, isDir bool) {
	fi, err := hackpadfs.Stat(fs, p)
	if err != nil {
		return false, false
	}
	return true, fi.IsDir()
}

func listing(fs hackpadfs.FS, p string) (map[string]bool, []hackpadfs.DirEntry, error) {
	des, err := hackpadfs.ReadDir(fs, p)
	if err != nil {
		return nil, nil, err
	}
	m := map[string]bool{}
	for _, de := range des {
		m[de.Name()] = true
	}
	return m, des, nil
}

func invariantInner(fs hackpadfs.FS, closure []string) (string, string) {
	// I1
	fi, err := hackpadfs.Stat(fs, ".")
	if err != nil {
		return "I1-root-missing", fmt.Sprintf("Stat(\".\") = %v", err)
	}
	if !fi.IsDir() {
		return "I1-root-not-dir", fmt.Sprintf("root mode %v", fi.Mode())
	}
	if f, err := fs.Open("."); err != nil {
		return "I1-root-not-openable", fmt.Sprintf("Open(\".\") = %v", err)
	} else {
		_ = f.Close()
	}
	listCache := map[string]map[string]bool{}
	// I2 over the whole closure, not only what listings reveal
	for _, p := range closure {
		if p == "." {
			continue
		}
		_, serr := hackpadfs.Stat(fs, p)
		f, oerr := fs.Open(p)
		if oerr == nil {
			_ = f.Close()
		}
		if serr != nil && oerr != nil {
			continue
		}
		if (serr == nil) != (oerr == nil) {
			return "I2-stat-open-disagree", fmt.Sprintf("%q: Stat err=%v, Open err=%v", p, serr, oerr)
		}
		parent := path.Dir(p)
		pe, pd := isDirOf(fs, parent)
		if !pe {
			return "I2-orphan", fmt.Sprintf("%q exists but its parent %q does not", p, parent)
		}
		if !pd {
			return "I2-parent-not-dir", fmt.Sprintf("%q exists but its parent %q is not a directory", p, parent)
		}
		names, ok := listCache[parent]
		if !ok {
			var lerr error
			names, _, lerr = listing(fs, parent)
			if lerr != nil {
				return "I2-parent-unlistable", fmt.Sprintf("ReadDir(%q) = %v although %q exists", parent, lerr, p)
			}
			listCache[parent] = names
		}
		if !names[path.Base(p)] {
			return "I2-hidden-entry", fmt.Sprintf("%q exists but ReadDir(%q) does not list it", p, parent)
		}
	}
	// I3, I4: walk listings from the root
	var walk func(dir string, depth int) (string, string)
	walk = func(dir string, depth int) (string, string) {
		if depth > 8 {
			return "I3-too-deep", dir
		}
		_, des, err := listing(fs, dir)
		if err != nil {
			return "I3-unlistable-dir", fmt.Sprintf("ReadDir(%q) = %v", dir, err)
		}
		seen := map[string]bool{}
		for _, de := range des {
			if seen[de.Name()] {
				return "I4-duplicate", fmt.Sprintf("%q listed twice in %q", de.Name(), dir)
			}
			seen[de.Name()] = true
			child := de.Name()
			if dir != "." {
				child = dir + "/" + de.Name()
			}
			fi, err := hackpadfs.Stat(fs, child)
			if err != nil {
				return "I3-listed-not-statable", fmt.Sprintf("%q is listed in %q but Stat = %v", de.Name(), dir, err)
			}
			f, err := fs.Open(child)
			if err != nil {
				return "I3-listed-not-openable", fmt.Sprintf("%q is listed in %q but Open = %v", de.Name(), dir, err)
			}
			hfi, herr := f.Stat()
			_ = f.Close()
			if herr != nil {
				return "I3-handle-stat", fmt.Sprintf("handle Stat of %q = %v", child, herr)
			}
			if de.IsDir() != fi.IsDir() || fi.IsDir() != hfi.IsDir() {
				return "I3-kind-disagree", fmt.Sprintf("%q: listing dir=%v Stat dir=%v handle dir=%v", child, de.IsDir(), fi.IsDir(), hfi.IsDir())
			}
			if fi.IsDir() {
				if c, m := walk(child, depth+1); c != "" {
					return c, m
				}
			}
		}
		return "", ""
	}
	return walk(".", 0)
}

// reachableKeys checks (white box) that every stored key is reachable from the root through listings.
func reachableKeys(s *subject) (string, string) {
	if s.store == nil {
		return "", ""
	}
	snap, prob := ops.SnapFS(s.fs)
	if prob != "" {
		return "I5-snapshot", prob
	}
	for _, k := range s.store.Keys() {
		if _, ok := snap[k]; !ok {
			return "WB-unreachable-key", fmt.Sprintf("store holds key %q which no listing from the root reaches (keys %v)", k, s.store.Keys())
		}
	}
	return "", ""
}

type machine struct {
	s          *subject
	nontrivial bool
	slots      [2]hackpadfs.File // handles kept open across steps (stale-handle histories)
	slotPath   [2]string
	// delivered: per open directory handle, how often its pages have handed out each path; disturbed: paths a namespace
	// operation has touched since (removed, renamed, re-created): only entries that were simply THERE all the time are
	// required to come exactly once
	delivered [2]map[string]int
	disturbed [2]map[string]bool
}

func (m *machine) openPaths() []string {
	var out []string
	for i, f := range m.slots {
		if f != nil && m.slotPath[i] != "." {
			out = append(out, m.slotPath[i])
		}
	}
	return out
}

// handleStep performs a handle-level step (kinds starting with "h"); the handle lives in slot op.N.
func (m *machine) handleStep(op ops.Op) ops.Res {
	var res ops.Res
	pan, hung := vf.Guard(func() {
		f := m.slots[op.N%2]
		switch op.K {
		case "hopen":
			if f != nil {
				_ = f.Close()
			}
			nf, err := hackpadfs.OpenFile(m.s.fs, op.P, op.Flag, 0o644)
			res.Err = err
			if err != nil {
				nf = nil
			}
			m.slots[op.N%2] = nf
			m.slotPath[op.N%2] = op.P
			m.delivered[op.N%2], m.disturbed[op.N%2] = map[string]int{}, map[string]bool{}
		case "hwrite":
			if f != nil {
				_, res.Err = hackpadfs.WriteFile(f, op.Data)
			}
		case "htrunc":
			if f != nil {
				res.Err = hackpadfs.TruncateFile(f, 1)
			}
		case "hchmod":
			if f != nil {
				res.Err = hackpadfs.ChmodFile(f, 0o600)
			}
		case "hreaddir":
			// page size in Perm (1, 2, ... or 0 for "all"): a directory handle read in pages while its directory changes
			if f != nil {
				n := int(op.Perm)
				if n == 0 {
					n = -1
				}
				var des []hackpadfs.DirEntry
				des, res.Err = hackpadfs.ReadDirFile(f, n)
				if res.Err == io.EOF {
					res.Err = nil
				}
				for _, de := range des {
					res.Ents = append(res.Ents, ops.Ent{Name: de.Name(), IsDir: de.IsDir()})
				}
			}
		case "hclose":
			if f != nil {
				res.Err = f.Close()
				m.slots[op.N%2] = nil
			}
		}
	})
	if hung {
		return ops.Res{Hung: true}
	}
	if pan != "" {
		return ops.Res{Panic: pan}
	}
	return res
}

func (m *machine) tree() gen.Tree {
	snap, _ := ops.SnapFS(m.s.fs)
	if snap == nil {
		snap = ops.Snap{".": ops.Node{Kind: 'd'}}
	}
	tr := gen.TreeOf(snap)
	if len(tr.Dirs) == 0 {
		tr.Dirs = []string{"."}
	}
	return tr
}

func (m *machine) step(op ops.Op, situation string) (string, string) {
	base := fmt.Sprintf("C03/%s %s", m.s.kind, situation)
	m.s.observe(op.P, op.P2)
	var res ops.Res
	if op.Fault > 0 && m.s.store != nil {
		// "after every history of operations, successful or FAILED": the store fails one call in the middle of this step
		m.s.store.FailAt, m.s.store.FailLen = m.s.store.Calls()+op.Fault, 1
	}
	if strings.HasPrefix(op.K, "h") {
		res = m.handleStep(op)
	} else {
		res = ops.ApplyFS(m.s.fs, op)
	}
	if m.s.store != nil {
		m.s.store.FailAt = 0
	}
	for i := range m.slots {
		if m.delivered[i] == nil {
			continue
		}
		if op.K == "hreaddir" && op.N%2 == i {
			for _, e := range res.Ents {
				full := path.Join(m.slotPath[i], e.Name)
				m.delivered[i][full]++
				if m.delivered[i][full] > 1 && !m.disturbed[i][full] {
					return base + ":I4-entry-twice-from-one-handle", fmt.Sprintf("%v handed out %q for the %d. time on the same directory handle (opened on %q), and nothing has removed, renamed or re-created that entry in between", op, full, m.delivered[i][full], m.slotPath[i])
				}
			}
		} else if !strings.HasPrefix(op.K, "h") {
			// any namespace operation on the entry, or on a directory above it, disturbs it
			for full := range m.delivered[i] {
				for _, p := range []string{op.P, op.P2} {
					if p != "" && (p == "." || p == full || strings.HasPrefix(full, p+"/")) {
						m.disturbed[i][full] = true
					}
				}
			}
			for _, p := range []string{op.P, op.P2} {
				if p != "" {
					m.disturbed[i][p] = true
				}
			}
		}
	}
	if res.Hung {
		return base + ":I5-hang", fmt.Sprintf("%v did not return", op)
	}
	if res.Panic != "" {
		return base + ":I5-panic", fmt.Sprintf("%v: %s", op, res.Panic)
	}
	for i, v := range m.s.views {
		if c, msg := invariant(v, m.s.closure()); c != "" {
			return fmt.Sprintf("%s:%s", base, c), fmt.Sprintf("after %v (%v) on view %d: %s", op, res, i, msg)
		}
	}
	if c, msg := reachableKeys(m.s); c != "" {
		return base + ":" + c, fmt.Sprintf("after %v (%v): %s", op, res, msg)
	}
	return "", ""
}

func run(t *testing.T, kind string) {
	vf.Check(t, kind, func(rt *rapid.T, rec *vf.Rec) {
		m := &machine{s: newSubject(kind)}
		if m.s.names == nil {
			if names := gen.Alphabet(rt); names[1] != "ab" {
				m.s.names = names
				rec.Class("exotic-alphabet")
			}
		}
		rt.Repeat(map[string]func(*rapid.T){
			"step": func(rt *rapid.T) {
				tr := m.tree()
				op := gen.Op(rt, tr, m.s.alphabet(), 4, m.s.rootMut)
				if rapid.IntRange(0, 4).Draw(rt, "handlestep") == 0 {
					// handles that stay open across later namespace operations (remove / rename / re-create of their path)
					op = ops.Op{K: rapid.SampledFrom([]string{"hopen", "hopen", "hwrite", "hwrite", "htrunc", "hchmod", "hreaddir", "hreaddir", "hclose"}).Draw(rt, "hk"), N: rapid.IntRange(0, 1).Draw(rt, "slot")}
					switch op.K {
					case "hreaddir":
						op.Perm = uint32(rapid.SampledFrom([]int{1, 1, 2, 3, 0}).Draw(rt, "pagesize"))
					case "hopen":
						op.P = gen.Path(rt, tr, m.s.alphabet(), 4, true, "hp")
						op.Flag = rapid.SampledFrom([]int{os.O_RDWR, os.O_WRONLY, os.O_RDWR | os.O_CREATE, os.O_WRONLY | os.O_APPEND | os.O_CREATE, os.O_RDONLY}).Draw(rt, "hflag")
						if len(tr.Dirs) > 0 && rapid.IntRange(0, 3).Draw(rt, "opendir") == 0 {
							// a directory handle (read-only), kept open while its directory is changed
							op.P = rapid.SampledFrom(tr.Dirs).Draw(rt, "hdir")
							op.Flag = os.O_RDONLY
						}
					case "hwrite":
						op.Data = gen.Payload(rt, 4, "hdata")
					}
					rec.Class("handle-step")
				} else if hp := m.openPaths(); len(hp) > 0 && rapid.IntRange(0, 2).Draw(rt, "targeted") == 0 {
					// aim namespace operations at the path of a handle that is still open (and at its parent):
					// unlink it, remove or replace its directory, re-create either as the other kind, then use the handle
					p := rapid.SampledFrom(hp).Draw(rt, "hpath")
					target := rapid.SampledFrom([]string{p, path.Dir(p), path.Join(p, rapid.SampledFrom(m.s.alphabet()).Draw(rt, "childname"))}).Draw(rt, "target")
					other := gen.Random(rt, m.s.alphabet(), 2, false, "other")
					switch rapid.IntRange(0, 6).Draw(rt, "tk") {
					case 0:
						op = ops.Op{K: "remove", P: target}
					case 1:
						op = ops.Op{K: "removeall", P: target}
					case 2:
						op = ops.Op{K: "rename", P: target, P2: other}
					case 3:
						op = ops.Op{K: "writefile", P: target, Data: []byte("n"), Perm: 0o644}
					case 4:
						op = ops.Op{K: "mkdir", P: target, Perm: 0o755}
					case 5:
						op = ops.Op{K: "rename", P: other, P2: target}
					default:
						op = ops.Op{K: rapid.SampledFrom([]string{"hwrite", "htrunc", "hchmod"}).Draw(rt, "huse"), N: rapid.IntRange(0, 1).Draw(rt, "slot"), Data: []byte("w")}
					}
					if target == "." && (op.K == "remove" || op.K == "removeall" || op.K == "rename") && !m.s.rootMut {
						op = ops.Op{K: "stat", P: "."}
					}
					rec.Class("targeted-at-open-handle")
				}
				if m.s.store != nil && rapid.IntRange(0, 7).Draw(rt, "deepcreate") == 0 {
					// several missing levels created by one call, usually interrupted by the store somewhere in the middle
					op = ops.Op{K: "mkdirall", P: gen.Random(rt, m.s.alphabet(), 4, false, "deep"), Perm: 0o755}
					rec.Class("deep-mkdirall")
				}
				if m.s.store != nil && len(tr.Dirs) > 1 && rapid.IntRange(0, 7).Draw(rt, "dirmove") == 0 {
					// a whole directory moves (one call, many keys), usually interrupted by the store somewhere in the middle
					var ds []string
					for _, d := range tr.Dirs {
						if d != "." {
							ds = append(ds, d)
						}
					}
					op = ops.Op{K: "rename", P: rapid.SampledFrom(ds).Draw(rt, "moved"), P2: gen.Random(rt, m.s.alphabet(), 2, false, "movedto")}
					rec.Class("directory-move")
				}
				if m.s.store != nil {
					// operations that write several keys get a fault half of the time, and later in their sequence of calls
					odds, last := 3, 8
					if op.K == "mkdirall" || op.K == "rename" || op.K == "removeall" {
						odds, last = 1, 14
					}
					if rapid.IntRange(0, odds).Draw(rt, "withfault") == 0 {
						op.Fault = rapid.IntRange(1, last).Draw(rt, "fault")
						rec.Class("store-fault-in-step")
					}
				}
				s := sit.Of(op, tr)
				if k := knownSig(m.s, op); k != "" {
					rec.Excluded(k)
					rt.Skip("known finding " + k)
				}
				rec.Step(op)
				rec.Class("op:" + op.K)
				if strings.Contains(s, "thrufile") {
					m.nontrivial = true
					rec.Class("path-through-file")
				}
				before := m.tree()
				sig, msg := m.step(op, s)
				if strings.HasSuffix(sig, ":I5-hang") || strings.HasSuffix(sig, "invariant-hang") {
					rec.HangExit(sig, "%s", msg)
				}
				if sig != "" {
					rec.Failf(rt, sig, "%s", msg)
				}
				if (op.K == "rename" || op.K == "remove" || op.K == "removeall") && sit.PathClass(before, op.P) != sit.PathClass(m.tree(), op.P) && strings.HasPrefix(sit.PathClass(before, op.P), "dir") {
					m.nontrivial = true // successful rename/remove of a directory
					rec.Class("dir-moved-or-removed")
				}
				if op.P == "." && (op.K == "remove" || op.K == "removeall" || op.K == "rename") {
					rec.Class("root-mutation")
				}
			},
		})
		if m.nontrivial {
			rec.NonTrivial()
		}
	})
}

// runStale: histories built around one handle that outlives its path: create p (1-2 elements deep), open it, then 1..4
// disturbances of p and of its directory (remove, rename away, rename something onto it, re-create either as the other
// kind), then the handle is used; the tree invariants are evaluated after every step.
func runStale(t *testing.T, kind string) {
	vf.Check(t, "stale-"+kind, func(rt *rapid.T, rec *vf.Rec) {
		m := &machine{s: newSubject(kind)}
		dir := rapid.SampledFrom([]string{".", "a", "b"}).Draw(rt, "dir")
		p := rapid.SampledFrom(gen.Names).Draw(rt, "name")
		var hist []ops.Op
		if dir != "." {
			hist = append(hist, ops.Op{K: "mkdirall", P: dir, Perm: 0o755})
			p = dir + "/" + p
		}
		hist = append(hist, ops.Op{K: "hopen", P: p, N: 0, Flag: rapid.SampledFrom([]int{os.O_RDWR | os.O_CREATE, os.O_WRONLY | os.O_CREATE | os.O_APPEND}).Draw(rt, "flag")})
		// scripted disturbances (constructed, not filtered), optionally followed by random ones
		other := rapid.SampledFrom([]string{"c", "c/c"}).Draw(rt, "other")
		scripts := [][]ops.Op{
			{{K: "remove", P: p}},
			{{K: "rename", P: p, P2: other}},
			{{K: "remove", P: p}, {K: "mkdir", P: p, Perm: 0o755}, {K: "mkdir", P: p + "/b", Perm: 0o755}},
			{{K: "remove", P: p}, {K: "writefile", P: p, Data: []byte("new"), Perm: 0o600}},
			{{K: "mkdir", P: "c", Perm: 0o755}, {K: "mkdir", P: "c/c", Perm: 0o755}, {K: "remove", P: p}, {K: "rename", P: "c", P2: p}},
		}
		if dir != "." {
			scripts = append(scripts,
				[]ops.Op{{K: "remove", P: p}, {K: "remove", P: dir}, {K: "writefile", P: dir, Data: []byte("f"), Perm: 0o644}},
				[]ops.Op{{K: "removeall", P: dir}, {K: "writefile", P: dir, Data: []byte("f"), Perm: 0o644}},
				[]ops.Op{{K: "removeall", P: dir}},
				[]ops.Op{{K: "rename", P: dir, P2: "c"}},
				[]ops.Op{{K: "rename", P: dir, P2: "c"}, {K: "writefile", P: dir, Data: []byte("f"), Perm: 0o644}},
				[]ops.Op{{K: "rename", P: dir, P2: "c"}, {K: "mkdir", P: dir, Perm: 0o700}},
			)
		}
		hist = append(hist, scripts[rapid.IntRange(0, len(scripts)-1).Draw(rt, "script")]...)
		nd := rapid.IntRange(0, 2).Draw(rt, "ndisturb")
		for i := 0; i < nd; i++ {
			target := rapid.SampledFrom([]string{p, p, dir}).Draw(rt, "target")
			if target == "." {
				target = p
			}
			switch rapid.IntRange(0, 6).Draw(rt, "dk") {
			case 0, 1:
				hist = append(hist, ops.Op{K: "remove", P: target})
			case 2:
				hist = append(hist, ops.Op{K: "removeall", P: target})
			case 3:
				hist = append(hist, ops.Op{K: "rename", P: target, P2: other})
			case 4:
				hist = append(hist, ops.Op{K: "writefile", P: target, Data: []byte("n"), Perm: 0o644})
			case 5:
				hist = append(hist, ops.Op{K: "mkdir", P: target, Perm: 0o755})
			default:
				hist = append(hist, ops.Op{K: "mkdirall", P: target + "/" + rapid.SampledFrom(gen.Names).Draw(rt, "child"), Perm: 0o755})
			}
		}
		nu := rapid.IntRange(1, 3).Draw(rt, "nuse")
		for i := 0; i < nu; i++ {
			hist = append(hist, ops.Op{K: rapid.SampledFrom([]string{"hwrite", "htrunc", "hchmod", "hclose"}).Draw(rt, "use"), N: 0, Data: []byte("w")})
		}
		rec.NonTrivial()
		for _, op := range hist {
			rec.Step(op)
			sig, msg := m.step(op, sit.Of(op, m.tree()))
			if strings.HasSuffix(sig, ":I5-hang") {
				rec.HangExit(sig, "%s", msg)
			}
			if sig != "" {
				rec.Failf(rt, sig, "%s", msg)
			}
		}
	})
}

// runDirPage: a directory handle read in pages while the directory changes underneath: populate a directory with 2..4
// children, open it, then interleave ReadDir(n) on the handle with removals, renames and additions of children (mostly of
// children the pages have not delivered yet). Every call terminates and the tree invariants hold after every step.
func runDirPage(t *testing.T, kind string) {
	vf.Check(t, "dirpage-"+kind, func(rt *rapid.T, rec *vf.Rec) {
		m := &machine{s: newSubject(kind)}
		dir := rapid.SampledFrom([]string{".", "a", "a/b"}).Draw(rt, "dir")
		var hist []ops.Op
		if dir != "." {
			hist = append(hist, ops.Op{K: "mkdirall", P: dir, Perm: 0o755})
		}
		names := []string{"a", "ab", "b", "c"} // few distinct elements: the invariant's path closure grows with their 4th power
		k := rapid.IntRange(2, 4).Draw(rt, "children")
		var kids []string
		for i := 0; i < k; i++ {
			p := path.Join(dir, names[i])
			kids = append(kids, p)
			if rapid.IntRange(0, 3).Draw(rt, "kiddir") == 0 {
				hist = append(hist, ops.Op{K: "mkdir", P: p, Perm: 0o755})
			} else {
				hist = append(hist, ops.Op{K: "writefile", P: p, Data: []byte("x"), Perm: 0o644})
			}
		}
		hist = append(hist, ops.Op{K: "hopen", P: dir, N: 0, Flag: os.O_RDONLY})
		n := rapid.IntRange(2, 8).Draw(rt, "nsteps")
		for i := 0; i < n; i++ {
			switch rapid.IntRange(0, 9).Draw(rt, "sk") {
			case 0, 1, 2, 3:
				hist = append(hist, ops.Op{K: "hreaddir", N: 0, Perm: uint32(rapid.SampledFrom([]int{1, 1, 2, 3, 0}).Draw(rt, "pagesize"))})
			case 4, 5, 6:
				hist = append(hist, ops.Op{K: "removeall", P: rapid.SampledFrom(kids).Draw(rt, "rm")})
			case 7:
				hist = append(hist, ops.Op{K: "rename", P: rapid.SampledFrom(kids).Draw(rt, "mv"), P2: path.Join(dir, rapid.SampledFrom(names).Draw(rt, "mvto"))})
			case 8:
				hist = append(hist, ops.Op{K: "writefile", P: path.Join(dir, rapid.SampledFrom(names).Draw(rt, "add")), Data: []byte("n"), Perm: 0o644})
			default:
				hist = append(hist, ops.Op{K: "removeall", P: dir})
			}
		}
		hist = append(hist, ops.Op{K: "hreaddir", N: 0, Perm: 1}, ops.Op{K: "hreaddir", N: 0, Perm: 0}, ops.Op{K: "hclose", N: 0})
		rec.NonTrivial()
		for _, op := range hist {
			rec.Step(op)
			rec.Class("op:" + op.K)
			sig, msg := m.step(op, "dirpage:"+op.K)
			if strings.HasSuffix(sig, ":I5-hang") || strings.HasSuffix(sig, "invariant-hang") {
				rec.HangExit(sig, "%s", msg)
			}
			if sig != "" {
				rec.Failf(rt, sig, "%s", msg)
			}
		}
	})
}

func TestDirPageMem(t *testing.T)     { runDirPage(t, "mem") }
func TestDirPageKVPlain(t *testing.T) { runDirPage(t, "kvplain") }

func TestStaleMem(t *testing.T)     { runStale(t, "mem") }
func TestStaleKVPlain(t *testing.T) { runStale(t, "kvplain") }

func TestMem(t *testing.T)      { run(t, "mem") }
func TestKVPlain(t *testing.T)  { run(t, "kvplain") }
func TestMount(t *testing.T)    { run(t, "mount") }
func TestSubMem(t *testing.T)   { run(t, "submem") }
func TestSubMount(t *testing.T) { run(t, "submount") }

func replay(kind string) func(steps []json.RawMessage) (string, string) {
	return func(steps []json.RawMessage) (string, string) {
		m := &machine{s: newSubject(kind)}
		for _, raw := range steps {
			var op ops.Op
			if err := json.Unmarshal(raw, &op); err != nil {
				return "bad-replay", err.Error()
			}
			if sig, msg := m.step(op, sit.Of(op, m.tree())); sig != "" {
				return sig, msg
			}
		}
		return "", ""
	}
}

func TestReplayMem(t *testing.T)        { vf.Replay(t, "mem", replay("mem")) }
func TestReplayStaleMem(t *testing.T)   { vf.Replay(t, "stale-mem", replay("mem")) }
func TestReplayStaleKV(t *testing.T)    { vf.Replay(t, "stale-kvplain", replay("kvplain")) }
func TestReplayDirPageMem(t *testing.T) { vf.Replay(t, "dirpage-mem", replay("mem")) }
func TestReplayDirPageKV(t *testing.T)  { vf.Replay(t, "dirpage-kvplain", replay("kvplain")) }
func TestReplayKVPlain(t *testing.T)    { vf.Replay(t, "kvplain", replay("kvplain")) }
func TestReplayMount(t *testing.T)      { vf.Replay(t, "mount", replay("mount")) }
func TestReplaySubMem(t *testing.T)     { vf.Replay(t, "submem", replay("submem")) }
func TestReplaySubMount(t *testing.T)   { vf.Replay(t, "submount", replay("submount")) }

var _ = sort.Strings
