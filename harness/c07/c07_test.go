// C07: a Sub view is indistinguishable from the subtree and cannot reach outside it.
package c07

import (
	"encoding/json"
	"errors"
	"fmt"
	"path"
	"reflect"
	"sort"
	"strings"
	"testing"

	"github.com/hack-pad/hackpadfs"
	"github.com/hack-pad/hackpadfs/mount"
	hos "github.com/hack-pad/hackpadfs/os"
	"pgregory.net/rapid"

	"verifharness/internal/gen"
	"verifharness/internal/ops"
	"verifharness/internal/sit"
	"verifharness/internal/subj"
	"verifharness/internal/vf"
	"verifharness/internal/world"
)

func TestMain(m *testing.M) {
	world.Init()
	registerProbes()
	vf.Main(m, world.Cleanup)
}

func must(err error) {
	if err != nil {
		panic(err)
	}
}

// openOnly exposes nothing but Open.
type openOnly struct{ inner hackpadfs.FS }

func (o openOnly) Open(name string) (hackpadfs.File, error) { return o.inner.Open(name) }

// brokenList exposes nothing but Open, and the listing of every directory with two or more entries breaks off before its
// (alphabetically) last entry: the entries read so far come back together with an error, as from a failing disk.
type brokenList struct{ inner hackpadfs.FS }

var errListing = errors.New("verif: the listing broke off")

func (b brokenList) Open(name string) (hackpadfs.File, error) {
	f, err := b.inner.Open(name)
	if err != nil {
		return nil, err
	}
	return brokenDir{f, name}, nil
}

type brokenDir struct {
	hackpadfs.File
	name string
}

func (d brokenDir) ReadDir(n int) ([]hackpadfs.DirEntry, error) {
	des, err := hackpadfs.ReadDirFile(d.File, -1)
	if err != nil || len(des) < 2 {
		return des, err
	}
	sort.Slice(des, func(i, j int) bool { return des[i].Name() < des[j].Name() })
	return des[:len(des)-1], &hackpadfs.PathError{Op: "readdir", Path: d.name, Err: errListing}
}

// twin is one of the two identical worlds.
type twin struct {
	parent hackpadfs.FS   // operations address this FS (directly, or through a view of it)
	setup  hackpadfs.FS   // where setup operations are applied
	parts  []hackpadfs.FS // everything whose state is compared
	mounts []string
	close  func()
}

func newTwin(kind string) *twin {
	switch kind {
	case "mem":
		fs := subj.NewMem()
		return &twin{parent: fs, setup: fs, parts: []hackpadfs.FS{fs}, close: func() {}}
	case "mount":
		root := subj.NewMem()
		must(root.MkdirAll("a/b", 0o755))
		mb := subj.NewMem()
		mfs, err := mount.NewFS(root)
		must(err)
		must(mfs.AddMount("a/b", mb))
		return &twin{parent: mfs, setup: mfs, parts: []hackpadfs.FS{mfs, root, mb}, mounts: []string{"a/b"}, close: func() {}}
	case "osfs":
		w := world.New()
		fs := subj.OSFS(w.Root, 1)
		return &twin{parent: fs, setup: fs, parts: []hackpadfs.FS{fs}, close: w.Close}
	case "openonly":
		inner := subj.NewMem()
		return &twin{parent: openOnly{inner}, setup: inner, parts: []hackpadfs.FS{inner}, close: func() {}}
	case "brokenlist":
		inner := subj.NewMem()
		return &twin{parent: brokenList{inner}, setup: inner, parts: []hackpadfs.FS{inner}, close: func() {}}
	case "subsub":
		inner := subj.NewMem()
		must(inner.Mkdir("p", 0o755))
		v, err := hackpadfs.Sub(inner, "p")
		must(err)
		return &twin{parent: v, setup: v, parts: []hackpadfs.FS{v, inner}, close: func() {}}
	}
	panic(kind)
}

var kinds = []string{"mem", "mount", "osfs", "openonly", "brokenlist", "subsub"}

// Case header (first step of the replay) and ops follow.
type Header struct {
	Kind  string   `json:"kind"`
	Setup []ops.Op `json:"setup"`
	Dir   string   `json:"dir"`
}

type machine struct {
	kind       string
	dir        string
	w1, w2     *twin
	view       hackpadfs.FS
	nontrivial bool
}

func newMachine(h Header) (*machine, string) {
	m := &machine{kind: h.Kind, dir: h.Dir, w1: newTwin(h.Kind), w2: newTwin(h.Kind)}
	for _, op := range h.Setup {
		_ = ops.ApplyFS(m.w1.setup, op)
		_ = ops.ApplyFS(m.w2.setup, op)
	}
	var err error
	pan, hung := vf.Guard(func() { m.view, err = hackpadfs.Sub(m.w1.parent, h.Dir) })
	if pan != "" || hung {
		return m, fmt.Sprintf("Sub(%q) %s hung=%v", h.Dir, pan, hung)
	}
	if err != nil {
		return m, fmt.Sprintf("Sub(%q) of an existing directory failed: %v", h.Dir, err)
	}
	if o, ok := m.w1.parent.(*hos.FS); ok {
		base, _ := o.ToOSPath(".")
		want := base
		if h.Dir != "." {
			want = strings.TrimSuffix(base, "/") + "/" + h.Dir
		}
		if v, ok := m.view.(*hos.FS); ok {
			if got, err := v.ToOSPath("."); err != nil || strings.TrimSuffix(got, "/") != strings.TrimSuffix(want, "/") {
				// never run operations through a view that points outside the scratch directory
				return m, fmt.Sprintf("Sub(%q) of an os.FS rooted at %s is rooted at %s", h.Dir, base, got)
			}
		}
	}
	return m, ""
}

func (m *machine) close() { m.w1.close(); m.w2.close() }

func joinDir(dir, name string) string {
	if name == "." {
		return dir
	}
	if dir == "." {
		return name
	}
	return dir + "/" + name
}

func snapAll(parts []hackpadfs.FS) (string, string) {
	var b strings.Builder
	for i, p := range parts {
		snap, prob := ops.SnapFS(p)
		if prob != "" {
			return "", prob
		}
		keys := make([]string, 0, len(snap))
		for k := range snap {
			keys = append(keys, k)
		}
		sort.Strings(keys)
		for _, k := range keys {
			fmt.Fprintf(&b, "%d:%s=%v\n", i, k, snap[k])
		}
	}
	return b.String(), ""
}

func errPaths(err error) []string {
	switch e := err.(type) {
	case *hackpadfs.PathError:
		return []string{e.Path}
	case *hackpadfs.LinkError:
		return []string{e.Old, e.New}
	}
	return nil
}

// step: op at name through the view in W1, op at dir/name directly in W2.
func (m *machine) step(op ops.Op) (string, string) {
	direct := op
	direct.P = joinDir(m.dir, op.P)
	if op.P2 != "" {
		direct.P2 = joinDir(m.dir, op.P2)
	}
	r1 := ops.ApplyFS(m.view, op)
	r2 := ops.ApplyFS(m.w2.parent, direct)
	base := fmt.Sprintf("C07/%s %s", m.kind, op.K)
	if r1.Hung || r1.Panic != "" || r2.Hung || r2.Panic != "" {
		return base + ":crash", fmt.Sprintf("view %v: %v; direct %v: %v", op, r1, direct, r2)
	}
	if r1.OK() != r2.OK() {
		return base + ":success-differs", fmt.Sprintf("dir=%q view %v: %v; direct %v: %v", m.dir, op, r1, direct, r2)
	}
	if r1.OK() {
		if !reflect.DeepEqual(r1.Data, r2.Data) || !reflect.DeepEqual(r1.Ents, r2.Ents) {
			return base + ":data-differs", fmt.Sprintf("dir=%q view %v: %v; direct %v: %v", m.dir, op, r1, direct, r2)
		}
		if r1.Info != nil && r2.Info != nil {
			a, b := *r1.Info, *r2.Info
			a.Mtime, b.Mtime = 0, 0 // the twin worlds were built at different wall-clock instants
			if op.P == "." {
				a.Name, b.Name = "", ""
			}
			if a != b {
				return base + ":info-differs", fmt.Sprintf("dir=%q view %v: %+v; direct %v: %+v", m.dir, op, a, direct, b)
			}
		}
	} else {
		if !reflect.DeepEqual(r1.Partial, r2.Partial) {
			return base + ":partial-listing-differs", fmt.Sprintf("dir=%q view %v failed (%v) handing back %v; direct %v failed (%v) handing back %v", m.dir, op, r1.Err, r1.Partial, direct, r2.Err, r2.Partial)
		}
		c1, c2 := ops.ErrClass(r1.Err), ops.ErrClass(r2.Err)
		if c1 != c2 {
			return base + ":error-class-differs", fmt.Sprintf("dir=%q view %v: %v [%s]; direct %v: %v [%s]", m.dir, op, r1.Err, c1, direct, r2.Err, c2)
		}
		p1, p2 := errPaths(r1.Err), errPaths(r2.Err)
		if len(p1) != len(p2) || reflect.TypeOf(r1.Err) != reflect.TypeOf(r2.Err) {
			return base + ":error-type-differs", fmt.Sprintf("dir=%q view %v: %T %v; direct %v: %T %v", m.dir, op, r1.Err, r1.Err, direct, r2.Err, r2.Err)
		}
		handleLevel := r1.Stage == "write:" || r1.Stage == "close:" // errors of the handle name the handle, not an FS path
		if errors.Is(r1.Err, hackpadfs.ErrNotImplemented) && reflect.DeepEqual(p1, p2) {
			handleLevel = true // helper fallback on an opened handle: both sides name the handle's base name (C08's subject)
		}
		for i := range p1 {
			if joinDir(m.dir, p1[i]) != p2[i] && !(op.K == "removeall" || op.K == "mkdirall") && !handleLevel {
				return base + ":error-path-differs", fmt.Sprintf("dir=%q view %v names %q; direct %v names %q", m.dir, op, p1[i], direct, p2[i])
			}
		}
	}
	s1, prob1 := snapAll(m.w1.parts)
	s2, prob2 := snapAll(m.w2.parts)
	if prob1 != "" || prob2 != "" {
		return base + ":snapshot", prob1 + prob2
	}
	if s1 != s2 {
		return base + ":state-differs", fmt.Sprintf("dir=%q after view %v (%v) vs direct %v (%v):\nview world:\n%s\ndirect world:\n%s", m.dir, op, r1, direct, r2, s1, s2)
	}
	return "", ""
}

func genHeader(t *rapid.T, kind string, names []string) Header {
	h := Header{Kind: kind}
	scratch := newTwin(kind)
	defer scratch.close()
	n := rapid.IntRange(1, 6).Draw(t, "nsetup")
	if kind == "brokenlist" {
		n += 4 // directories with several entries are the point there
	}
	for i := 0; i < n; i++ {
		snap, _ := ops.SnapFS(scratch.setup)
		tr := gen.TreeOf(snap)
		k := rapid.SampledFrom([]string{"mkdir", "mkdir", "mkdirall", "writefile"}).Draw(t, "skind")
		op := ops.Op{K: k, P: gen.Path(t, tr, names, 3, false, "sp"), Perm: 0o755}
		if k == "writefile" {
			op.Perm = 0o644
			op.Data = gen.Payload(t, 8, "sdata")
		}
		_ = ops.ApplyFS(scratch.setup, op)
		h.Setup = append(h.Setup, op)
	}
	snap, _ := ops.SnapFS(scratch.setup)
	tr := gen.TreeOf(snap)
	h.Dir = rapid.SampledFrom(tr.Dirs).Draw(t, "dir")
	return h
}

func aboveMount(w *twin, dir string) bool {
	for _, mp := range w.mounts {
		if dir == "." || strings.HasPrefix(mp, dir+"/") {
			return true
		}
	}
	return false
}

func run(t *testing.T, kind string) {
	vf.Check(t, kind, func(rt *rapid.T, rec *vf.Rec) {
		names := gen.Alphabet(rt)
		h := genHeader(rt, kind, names)
		if kind == "mount" && vf.Known("C07:sub-above-mountpoint") {
			probe := newTwin(kind)
			above := aboveMount(probe, h.Dir)
			probe.close()
			if above {
				rec.Excluded("C07:sub-above-mountpoint")
				rt.Skip("known finding")
			}
		}
		rec.Step(h)
		m, prob := newMachine(h)
		defer m.close()
		if prob != "" {
			rec.Failf(rt, "C07/"+kind+" sub:construct", "%s", prob)
		}
		rec.Class("dir-depth:" + fmt.Sprint(gen.Depth(h.Dir)))
		if names[1] != "ab" {
			rec.Class("exotic-alphabet")
		}
		if h.Dir != "." {
			m.nontrivial = true
		}
		rt.Repeat(map[string]func(*rapid.T){
			"step": func(rt *rapid.T) {
				vsnap, _ := ops.SnapFS(m.view)
				if vsnap == nil {
					vsnap = ops.Snap{".": ops.Node{Kind: 'd'}}
				}
				tr := gen.TreeOf(vsnap)
				if len(tr.Dirs) == 0 {
					tr.Dirs = []string{"."}
				}
				op := gen.Op(rt, tr, names, 3, false)
				if op.K == "chmod" && rapid.IntRange(0, 2).Draw(rt, "special") == 0 {
					op.Perm |= rapid.SampledFrom(ops.SpecialBits).Draw(rt, "specialbit") // set-uid / set-gid / sticky travel with a mode too
				}
				if kind == "brokenlist" && rapid.Bool().Draw(rt, "listing") {
					op = ops.Op{K: "readdir", P: rapid.SampledFrom(tr.Dirs).Draw(rt, "listed")}
				}
				if kind == "osfs" && op.K == "readfile" {
					// fine on os
				}
				if k := knownSig(kind, op, sit.Of(op, tr)); k != "" {
					rec.Excluded(k)
					rt.Skip("known finding " + k)
				}
				rec.Step(op)
				rec.Class("op:" + op.K)
				if sig, msg := m.step(op); sig != "" {
					rec.Failf(rt, sig, "%s", msg)
				}
			},
		})
		if m.nontrivial {
			rec.NonTrivial()
		}
	})
}

func TestMem(t *testing.T)        { run(t, "mem") }
func TestMount(t *testing.T)      { run(t, "mount") }
func TestOSFS(t *testing.T)       { run(t, "osfs") }
func TestOpenOnly(t *testing.T)   { run(t, "openonly") }
func TestBrokenList(t *testing.T) { run(t, "brokenlist") }
func TestSubSub(t *testing.T)     { run(t, "subsub") }

func TestReplayAll(t *testing.T) {
	for _, kind := range kinds {
		kind := kind
		t.Run(kind, func(t *testing.T) {
			vf.Replay(t, kind, func(steps []json.RawMessage) (string, string) {
				if len(steps) == 0 {
					return "", ""
				}
				var h Header
				if err := json.Unmarshal(steps[0], &h); err != nil {
					return "bad-replay", err.Error()
				}
				m, prob := newMachine(h)
				defer m.close()
				if prob != "" {
					return "C07/" + kind + " sub:construct", prob
				}
				for _, raw := range steps[1:] {
					var op ops.Op
					if err := json.Unmarshal(raw, &op); err != nil {
						return "bad-replay", err.Error()
					}
					if sig, msg := m.step(op); sig != "" {
						return sig, msg
					}
				}
				return "", ""
			})
		})
	}
}

func knownSig(kind string, op ops.Op, situation string) string { return "" }

func registerProbes() {
	vf.RegisterProbe("C07:sub-above-mountpoint", func() (bool, string) {
		s := subj.SubMountAbove()
		_, err := hackpadfs.Stat(s.FS, "a")
		must(hackpadfs.WriteFullFile(s.Parts[3], "inmount", []byte("x"), 0o644))
		_, err2 := hackpadfs.Stat(s.FS, "a/inmount")
		return err2 != nil, fmt.Sprintf("Sub(mountFS, \"m\") with a mount at m/a: Stat(view, \"a\")=%v, Stat(view, \"a/inmount\")=%v (the file exists in the mounted FS)", err, err2)
	})
}

var _ = errors.Is
var _ = path.Join
