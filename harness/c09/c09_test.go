// C09: os.FS maps names to OS paths inside its root, reversibly.
package c09

import (
	"encoding/json"
	"errors"
	"fmt"
	"io/fs"
	"strings"
	"testing"

	"github.com/hack-pad/hackpadfs"
	hos "github.com/hack-pad/hackpadfs/os"
	"pgregory.net/rapid"

	"verifharness/internal/vf"
	"verifharness/internal/world"
)

func TestMain(m *testing.M) {
	world.Init()
	vf.Main(m, world.Cleanup)
}

// Conv is a path convention.
type Conv struct {
	GOOS string `json:"goos"`
	Sep  string `json:"sep"`
}

var convs = []Conv{{"linux", "/"}, {"windows", `\`}}

// Case is the replay format.
type Case struct {
	Conv   Conv     `json:"conv"`
	Subs   []string `json:"subs"`   // chain of Sub(dir) calls building the root
	Volume string   `json:"volume"` // SubVolume-style volume name ("" = default)
	Name   string   `json:"name"`   // FS name for the forward direction
	// Candidate OS path for the reverse direction, Go-quoted (may hold arbitrary bytes)
	CandidateQ string `json:"candidate_quoted"`
}

// windowsVolume plays filepath.VolumeName for the windows convention: "X:" or \\host\share.
func windowsVolume(p string) string {
	if len(p) >= 2 && p[1] == ':' && (p[0] >= 'a' && p[0] <= 'z' || p[0] >= 'A' && p[0] <= 'Z') {
		return p[:2]
	}
	if strings.HasPrefix(p, `\\`) {
		rest := p[2:]
		i := strings.Index(rest, `\`)
		if i <= 0 {
			return ""
		}
		j := strings.Index(rest[i+1:], `\`)
		if j < 0 {
			if len(rest) > i+1 {
				return p
			}
			return ""
		}
		if j == 0 {
			return ""
		}
		return p[:2+i+1+j]
	}
	return ""
}

func volumeFunc(c Conv) func(string) string {
	if c.GOOS == "windows" {
		return windowsVolume
	}
	return func(string) string { return "" }
}

func buildFS(c Case) (*hos.FS, []string, error) {
	var fsys hackpadfs.FS = hos.NewFSForVerif("", c.Volume)
	var rootEls []string
	for _, d := range c.Subs {
		sub, err := fsys.(*hos.FS).Sub(d)
		if err != nil {
			return nil, nil, err
		}
		fsys = sub
		if d != "." {
			rootEls = append(rootEls, strings.Split(d, "/")...)
		}
	}
	return fsys.(*hos.FS), rootEls, nil
}

func effectiveVolume(c Case) string {
	if c.Conv.GOOS == "windows" && c.Volume == "" {
		return "C:"
	}
	return c.Volume
}

// expectedOSPath: volume + sep + elements of root and name joined by sep, computed by splitting.
func expectedOSPath(c Case, rootEls []string, name string) string {
	els := append([]string{}, rootEls...)
	if name != "." {
		els = append(els, strings.Split(name, "/")...)
	}
	return effectiveVolume(c) + c.Conv.Sep + strings.Join(els, c.Conv.Sep)
}

// cleanOS lexically cleans an absolute OS path of the convention: returns volume, the clean elements and whether it is absolute.
func cleanOS(c Case, p string) (vol string, els []string, abs bool) {
	vol = volumeFunc(c.Conv)(p)
	rest := p[len(vol):]
	if c.Conv.GOOS == "windows" {
		rest = strings.ReplaceAll(rest, "/", `\`) // Windows accepts the forward slash as a separator too
	}
	if !strings.HasPrefix(rest, c.Conv.Sep) {
		return vol, nil, false
	}
	for _, el := range strings.Split(rest, c.Conv.Sep) {
		switch el {
		case "", ".":
		case "..":
			if len(els) > 0 {
				els = els[:len(els)-1]
			}
		default:
			els = append(els, el)
		}
	}
	return vol, els, true
}

func hasPrefix(els, prefix []string) bool {
	if len(els) < len(prefix) {
		return false
	}
	for i := range prefix {
		if els[i] != prefix[i] {
			return false
		}
	}
	return true
}

func check(c Case) (string, string) {
	var sig, msg string
	pan, hung := vf.Guard(func() { sig, msg = checkInner(c) })
	if hung {
		return "C09 hang", "did not terminate"
	}
	if pan != "" {
		return "C09 panic", pan
	}
	return sig, msg
}

func checkInner(c Case) (string, string) {
	base := "C09/" + c.Conv.GOOS
	sep := rune(c.Conv.Sep[0])
	fsys, rootEls, err := buildFS(c)
	if err != nil {
		return "", "" // an invalid Sub directory: nothing to check (C04 covers the rejection)
	}
	// (1) forward
	got, ferr := fsys.ToOSPathFor(c.Conv.GOOS, sep, "op", c.Name)
	if !fs.ValidPath(c.Name) {
		if ferr == nil || !errors.Is(ferr, hackpadfs.ErrInvalid) {
			return base + " forward:invalid-accepted", fmt.Sprintf("ToOSPath(%q) with root %v = %q, %v; want ErrInvalid", c.Name, rootEls, got, ferr)
		}
	} else if c.Conv.GOOS == "windows" && strings.ContainsAny(c.Name+strings.Join(c.Subs, ""), `\:`) && ferr != nil {
		// a backslash or colon cannot be an ordinary name byte under Windows conventions: refusing the name (as os.DirFS does) is the
		// only way to stay inside the root; it must then be refused as invalid
		if !errors.Is(ferr, hackpadfs.ErrInvalid) {
			return base + " forward:error-kind", fmt.Sprintf("ToOSPath(%q): %v does not match ErrInvalid", c.Name, ferr)
		}
	} else {
		if ferr != nil {
			return base + " forward:valid-refused", fmt.Sprintf("ToOSPath(%q) with root %v: %v", c.Name, rootEls, ferr)
		}
		// names containing the convention's separator as an ordinary byte (backslash on windows) have no exact inverse: only the inside-root property is pinned
		want := expectedOSPath(c, rootEls, c.Name)
		if c.Conv.GOOS == "windows" && strings.ContainsAny(c.Name+strings.Join(c.Subs, ""), `\:`) {
			// a backslash is an ordinary byte of an FS name but the separator of this convention: such a name has no exact
			// OS spelling; only "lexically inside the root" is pinned
			vol, els, abs := cleanOS(c, got)
			if !abs || vol != effectiveVolume(c) || !hasPrefix(els, rootEls) {
				return base + " forward:outside-root", fmt.Sprintf("ToOSPath(%q) with root %v volume %q = %q, which is not inside the root", c.Name, rootEls, c.Volume, got)
			}
		} else if got != want {
			return base + " forward:wrong-path", fmt.Sprintf("ToOSPath(%q) with root %v volume %q = %q, want %q", c.Name, rootEls, c.Volume, got, want)
		}
		// (2) round trip
		if !(c.Conv.GOOS == "windows" && strings.ContainsAny(c.Name+strings.Join(c.Subs, ""), `\:`)) {
			back, berr := fsys.FromOSPathFor(c.Conv.GOOS, sep, volumeFunc(c.Conv), "op", got)
			if berr != nil || back != c.Name {
				return base + " roundtrip", fmt.Sprintf("FromOSPath(ToOSPath(%q) = %q) = %q, %v (root %v volume %q)", c.Name, got, back, berr, rootEls, c.Volume)
			}
		}
	}
	// (3) reverse on an arbitrary candidate
	cand, qerr := unquote(c.CandidateQ)
	if qerr != nil {
		return "", ""
	}
	vol, els, abs := cleanOS(c, cand)
	if !abs {
		return "", "" // relative paths are refused by the exported wrapper (filepath.IsAbs); checked in the live leg
	}
	res, rerr := fsys.FromOSPathFor(c.Conv.GOOS, sep, volumeFunc(c.Conv), "op", cand)
	inside := vol == effectiveVolume(c) && hasPrefix(els, rootEls)
	if rerr != nil {
		if !errors.Is(rerr, hackpadfs.ErrInvalid) {
			return base + " reverse:error-kind", fmt.Sprintf("FromOSPath(%q): %v does not match ErrInvalid", cand, rerr)
		}
		return "", ""
	}
	if !fs.ValidPath(res) {
		return base + " reverse:invalid-result", fmt.Sprintf("FromOSPath(%q) with root %v volume %q returned %q, which is not a valid FS path", cand, rootEls, c.Volume, res)
	}
	if !inside {
		return base + " reverse:outside-root-accepted", fmt.Sprintf("FromOSPath(%q) with root %v volume %q returned %q although the path (volume %q, elements %v) is not inside the root", cand, rootEls, c.Volume, res, vol, els)
	}
	if c.Conv.GOOS == "windows" && strings.ContainsAny(res+strings.Join(c.Subs, ""), `\:`) {
		// a candidate with a ':' inside an element is not a path Windows can produce; the statement pins the inverse only on valid names
		return "", ""
	}
	again, aerr := fsys.ToOSPathFor(c.Conv.GOOS, sep, "op", res)
	wantClean := effectiveVolume(c) + c.Conv.Sep + strings.Join(els, c.Conv.Sep)
	if aerr != nil || again != wantClean {
		return base + " reverse:not-inverse", fmt.Sprintf("FromOSPath(%q) = %q but ToOSPath(%q) = %q, %v; the cleaned candidate is %q", cand, res, res, again, aerr, wantClean)
	}
	return "", ""
}

func unquote(q string) (string, error) {
	var s string
	err := json.Unmarshal([]byte(q), &s)
	return s, err
}

func quote(s string) string {
	b, _ := json.Marshal(s)
	return string(b)
}

// ------------------------------------------------------------------ generation

var rootNames = []string{"tmp", "root", "rootx", "a", "tmp/root", "a/b", "."}

func genCase(t *rapid.T) Case {
	c := Case{Conv: rapid.SampledFrom(convs).Draw(t, "conv")}
	n := rapid.IntRange(0, 3).Draw(t, "nsubs")
	for i := 0; i < n; i++ {
		c.Subs = append(c.Subs, rapid.SampledFrom(rootNames).Draw(t, "sub"))
	}
	if c.Conv.GOOS == "windows" {
		c.Volume = rapid.SampledFrom([]string{"", "C:", "D:", `\\host\share`}).Draw(t, "volume")
	}
	// name: valid or invalid
	switch rapid.IntRange(0, 4).Draw(t, "namekind") {
	case 0:
		c.Name = rapid.SampledFrom([]string{"", "/a", "a/", "a//b", "./a", "a/..", "..", "../root", "a/./b", "\xff"}).Draw(t, "badname")
	case 1:
		c.Name = rapid.SampledFrom([]string{".", `a\b`, "a:b", "C:", `..\x`, " a", "é"}).Draw(t, "oddname")
	default:
		d := rapid.IntRange(1, 3).Draw(t, "depth")
		var els []string
		for i := 0; i < d; i++ {
			els = append(els, rapid.SampledFrom([]string{"a", "b", "root", "rootx", "tmp", "x.y"}).Draw(t, "el"))
		}
		c.Name = strings.Join(els, "/")
	}
	// candidate OS path
	sep := c.Conv.Sep
	var vol string
	if c.Conv.GOOS == "windows" {
		vol = rapid.SampledFrom([]string{"C:", "C:", "D:", `\\host\share`, `\\host\other`, "", "c:"}).Draw(t, "cvol")
		if rapid.IntRange(0, 2).Draw(t, "samevol") == 0 {
			vol = effectiveVolume(c)
		}
	}
	var b strings.Builder
	b.WriteString(vol)
	if rapid.IntRange(0, 9).Draw(t, "relative") != 0 {
		b.WriteString(sep)
	}
	// start from the root (or a look-alike), then wander
	var rootEls []string
	for _, s := range c.Subs {
		if s != "." {
			rootEls = append(rootEls, strings.Split(s, "/")...)
		}
	}
	mode := rapid.IntRange(0, 5).Draw(t, "candmode")
	var els []string
	switch mode {
	case 0, 1, 2:
		els = append(els, rootEls...)
	case 3:
		els = append(els, rootEls...)
		if len(els) > 0 {
			els[len(els)-1] += "x" // look-alike prefix: /tmp/rootx vs /tmp/root
		}
	case 4:
		if len(rootEls) > 0 {
			els = append(els, rootEls[:len(rootEls)-1]...)
		}
	}
	extra := rapid.IntRange(0, 4).Draw(t, "extra")
	for i := 0; i < extra; i++ {
		els = append(els, rapid.SampledFrom([]string{"a", "b", "root", "x.y", ".", "..", "", "..", "a"}).Draw(t, "cel"))
	}
	b.WriteString(strings.Join(els, sep))
	if rapid.IntRange(0, 4).Draw(t, "trailing") == 0 {
		b.WriteString(sep)
	}
	c.CandidateQ = quote(b.String())
	return c
}

func classify(c Case, rec *vf.Rec) {
	rec.Class("conv:" + c.Conv.GOOS)
	rec.Class(fmt.Sprintf("subs:%d", len(c.Subs)))
	cand, _ := unquote(c.CandidateQ)
	if strings.Contains(cand, "..") || strings.Contains(cand, c.Conv.Sep+c.Conv.Sep) || strings.HasSuffix(cand, c.Conv.Sep) {
		rec.Class("unclean-candidate")
		rec.NonTrivial()
	}
	if len(c.Subs) > 0 && fs.ValidPath(c.Name) {
		rec.NonTrivial()
	}
}

func TestPure(t *testing.T) {
	vf.Check(t, "pure", func(rt *rapid.T, rec *vf.Rec) {
		c := genCase(rt)
		rec.Step(c)
		classify(c, rec)
		if sig, msg := check(c); sig != "" {
			rec.Failf(rt, sig, "%s", msg)
		}
	})
}

// TestLive: the exported API on this host (linux): relative paths and foreign roots are refused, the round trip holds.
func TestLive(t *testing.T) {
	vf.Check(t, "live", func(rt *rapid.T, rec *vf.Rec) {
		c := genCase(rt)
		c.Conv = convs[0]
		c.Volume = ""
		rec.Step(c)
		rec.NonTrivial()
		var fsys hackpadfs.FS = hos.NewFS()
		var rootEls []string
		for _, d := range c.Subs {
			sub, err := hackpadfs.Sub(fsys, d)
			if err != nil {
				rt.Skip("invalid sub")
			}
			fsys = sub
			if d != "." {
				rootEls = append(rootEls, strings.Split(d, "/")...)
			}
		}
		o := fsys.(*hos.FS)
		cand, _ := unquote(c.CandidateQ)
		res, err := o.FromOSPath(cand)
		if !strings.HasPrefix(cand, "/") {
			if err == nil {
				rec.Failf(rt, "C09/live reverse:relative-accepted", "FromOSPath(%q) = %q for a relative path", cand, res)
			}
			return
		}
		_, els, _ := cleanOS(c, cand)
		if err == nil {
			if !fs.ValidPath(res) {
				rec.Failf(rt, "C09/live reverse:invalid-result", "FromOSPath(%q) with root %v = %q, not a valid FS path", cand, rootEls, res)
			}
			if !hasPrefix(els, rootEls) {
				rec.Failf(rt, "C09/live reverse:outside-root-accepted", "FromOSPath(%q) with root %v = %q", cand, rootEls, res)
			}
			back, berr := o.ToOSPath(res)
			if berr != nil || back != "/"+strings.Join(els, "/") {
				rec.Failf(rt, "C09/live reverse:not-inverse", "FromOSPath(%q) = %q, ToOSPath gives %q, %v", cand, res, back, berr)
			}
		}
		if fs.ValidPath(c.Name) {
			p, err := o.ToOSPath(c.Name)
			if err != nil {
				rec.Failf(rt, "C09/live forward:valid-refused", "ToOSPath(%q): %v", c.Name, err)
			}
			back, err := o.FromOSPath(p)
			if err != nil || back != c.Name {
				rec.Failf(rt, "C09/live roundtrip", "FromOSPath(ToOSPath(%q)=%q) = %q, %v", c.Name, p, back, err)
			}
		}
	})
}

// FuzzPaths: native fuzzing over (convention, subs, volume, name, candidate).
func FuzzPaths(f *testing.F) {
	f.Add(uint8(0), "tmp/root", "", "a/b", "/tmp/root/a/b")
	f.Add(uint8(1), "tmp/root", "C:", "a", `C:\tmp\root\..\x`)
	f.Add(uint8(1), "root", `\\host\share`, "a", `\\host\share\rootx\a`)
	f.Add(uint8(0), "tmp/root", "", "a", "/tmp/rootx/a")
	f.Add(uint8(0), "", "", ".", "/")
	f.Add(uint8(1), "a", "", "b", `C:\a\\b\`)
	f.Fuzz(func(t *testing.T, conv uint8, sub, volume, name, cand string) {
		if len(sub)+len(name)+len(cand)+len(volume) > 200 || strings.ContainsRune(sub+name+cand+volume, 0) {
			t.Skip()
		}
		c := Case{Conv: convs[int(conv)%2], Name: name, CandidateQ: quote(cand)}
		if sub != "" {
			if !fs.ValidPath(sub) {
				t.Skip()
			}
			c.Subs = []string{sub}
		}
		if c.Conv.GOOS == "windows" {
			if volume != "" && windowsVolume(volume) != volume {
				t.Skip() // SubVolume only accepts a string that is exactly a volume name
			}
			c.Volume = volume
		}
		rec := vf.FuzzRec("fuzzpaths")
		rec.Step(c)
		if strings.Contains(cand, "..") {
			rec.NonTrivial()
		}
		sig, msg := check(c)
		rec.FuzzDone()
		if sig != "" {
			rec.FuzzFail(t, sig, "%s", msg)
		}
	})
}

func TestReplayAll(t *testing.T) {
	for _, leg := range []string{"pure", "fuzzpaths"} {
		leg := leg
		t.Run(leg, func(t *testing.T) {
			vf.Replay(t, leg, func(steps []json.RawMessage) (string, string) {
				for _, raw := range steps {
					var c Case
					if err := json.Unmarshal(raw, &c); err != nil {
						return "bad-replay", err.Error()
					}
					if sig, msg := check(c); sig != "" {
						return sig, msg
					}
				}
				return "", ""
			})
		})
	}
}
