package c09

import (
	"encoding/json"
	"fmt"
	"io"
	"os"
	"path/filepath"
	"sort"
	"strings"
	"testing"
	"time"

	"github.com/hack-pad/hackpadfs"
	hos "github.com/hack-pad/hackpadfs/os"
	"pgregory.net/rapid"

	"verifharness/internal/gen"
	"verifharness/internal/vf"
	"verifharness/internal/world"
)

// ------------------------------------------------------------------ live operations: the OS path really used
//
// "The OS path os.FS uses is exactly the root joined with the name" -- for every operation, including the ones whose
// names end up STORED in the file system (the target of a symbolic link) or come in pairs (Rename, Symlink). Two
// identical scratch directories: in one the operation goes through an os.FS rooted there by a chain of Sub calls (whose
// directory names may hold ':', '\', spaces, leading dots), in the other the raw os package is called with
// filepath.Join(root, name). After every operation both trees are compared with Lstat/Readlink (a link's target is
// compared relative to its own root).

// LiveOp is one step (replay format).
type LiveOp struct {
	K    string `json:"k"` // mkdir mkdirall writefile symlink rename remove chmod chtimes
	P    string `json:"p"`
	P2   string `json:"p2,omitempty"`
	Data string `json:"data,omitempty"`
	Perm uint32 `json:"perm,omitempty"`
	Flag int    `json:"flag,omitempty"` // openfile: the raw flag word
}

// LiveCase: sub-directory chain below the scratch root, how many Sub calls build it, the steps.
type LiveCase struct {
	Chain []string `json:"chain"`
	Subs  int      `json:"subs"`
	Ops   []LiveOp `json:"ops"`
	// FailFirst: before every Sub call an operation fails on the parent FS object
	FailFirst bool `json:"fail_first,omitempty"`
	// VolAt: 1+k = SubVolume("") (the one volume name valid here) is asked of the FS object reached after k Sub calls; if it
	// answers with a file system instead of an error, the chain continues from that one: it must still be the same view
	VolAt int `json:"vol_at,omitempty"`
}

func lsnap(root string) map[string]string {
	out := map[string]string{}
	_ = filepath.Walk(root, func(p string, info os.FileInfo, err error) error {
		if err != nil {
			return nil
		}
		rel := strings.TrimPrefix(strings.TrimPrefix(p, root), "/")
		if rel == "" {
			return nil
		}
		switch {
		case info.Mode()&os.ModeSymlink != 0:
			t, _ := os.Readlink(p)
			if strings.HasPrefix(t, root) {
				t = "<root>" + strings.TrimPrefix(t, root)
			}
			out[rel] = "link -> " + t
		case info.IsDir():
			out[rel] = fmt.Sprintf("dir %o", info.Mode().Perm())
		default:
			b, _ := os.ReadFile(p)
			out[rel] = fmt.Sprintf("file %o %q mtime=%d", info.Mode().Perm(), b, info.ModTime().Unix()/1e6)
		}
		return nil
	})
	return out
}

func snapDiff(a, b map[string]string) string {
	var ks []string
	for k := range a {
		ks = append(ks, k)
	}
	for k := range b {
		if _, ok := a[k]; !ok {
			ks = append(ks, k)
		}
	}
	sort.Strings(ks)
	for _, k := range ks {
		if a[k] != b[k] {
			return fmt.Sprintf("%q: raw os has %q, through os.FS %q", k, a[k], b[k])
		}
	}
	return ""
}

func checkLive(c LiveCase) (string, string) {
	ref, sub := world.New(), world.New()
	defer ref.Close()
	defer sub.Close()
	chain := strings.Join(c.Chain, "/")
	refRoot, subRoot := ref.Root, sub.Root
	if chain != "" {
		refRoot, subRoot = ref.Root+"/"+chain, sub.Root+"/"+chain
		if err := os.MkdirAll(refRoot, 0o777); err != nil {
			panic(err)
		}
		if err := os.MkdirAll(subRoot, 0o777); err != nil {
			panic(err)
		}
	}
	// the os.FS: Subs chained Sub calls that together spell subRoot
	els := strings.Split(strings.TrimPrefix(subRoot, "/"), "/")
	n := c.Subs
	if n < 1 {
		n = 1
	}
	if n > len(els) {
		n = len(els)
	}
	var fsys hackpadfs.FS = hos.NewFS()
	per := len(els) / n
	subVolume := func(k int) {
		if c.VolAt != 1+k {
			return
		}
		if v, err := fsys.(*hos.FS).SubVolume(""); err == nil && v != nil {
			fsys = v
		}
	}
	for i := 0; i < n; i++ {
		subVolume(i)
		lo, hi := i*per, (i+1)*per
		if i == n-1 {
			hi = len(els)
		}
		if c.FailFirst {
			// an operation that fails in the OS on the parent before the view is taken: a view inherits nothing from that
			_, _ = hackpadfs.Stat(fsys, "no-such-entry-"+fmt.Sprint(i))
		}
		next, err := hackpadfs.Sub(fsys, strings.Join(els[lo:hi], "/"))
		if err != nil {
			return "C09/liveops sub", fmt.Sprintf("Sub(%q): %v", strings.Join(els[lo:hi], "/"), err)
		}
		fsys = next
	}
	subVolume(n)
	if got, err := fsys.(*hos.FS).ToOSPath("."); err != nil || got != subRoot {
		return "C09/liveops root", fmt.Sprintf("ToOSPath(\".\") = %q, %v; the Sub chain spells %q", got, err, subRoot)
	}
	osp := func(name string) string { return filepath.Join(refRoot, filepath.FromSlash(name)) }
	for i, op := range c.Ops {
		var rerr, serr error
		tm := time.Unix(1_500_000_000, 0)
		pan, hung := vf.Guard(func() {
			switch op.K {
			case "mkdir":
				rerr, serr = os.Mkdir(osp(op.P), os.FileMode(op.Perm)), hackpadfs.Mkdir(fsys, op.P, hackpadfs.FileMode(op.Perm))
			case "mkdirall":
				rerr, serr = os.MkdirAll(osp(op.P), os.FileMode(op.Perm)), hackpadfs.MkdirAll(fsys, op.P, hackpadfs.FileMode(op.Perm))
			case "writefile":
				rerr, serr = os.WriteFile(osp(op.P), []byte(op.Data), os.FileMode(op.Perm)), hackpadfs.WriteFullFile(fsys, op.P, []byte(op.Data), hackpadfs.FileMode(op.Perm))
			case "symlink":
				rerr, serr = os.Symlink(osp(op.P), osp(op.P2)), hackpadfs.Symlink(fsys, op.P, op.P2)
			case "rename":
				rerr, serr = os.Rename(osp(op.P), osp(op.P2)), hackpadfs.Rename(fsys, op.P, op.P2)
			case "remove":
				rerr, serr = os.Remove(osp(op.P)), hackpadfs.Remove(fsys, op.P)
			case "chmod":
				rerr, serr = os.Chmod(osp(op.P), os.FileMode(op.Perm)), hackpadfs.Chmod(fsys, op.P, hackpadfs.FileMode(op.Perm))
			case "chtimes":
				rerr, serr = os.Chtimes(osp(op.P), tm, tm), hackpadfs.Chtimes(fsys, op.P, tm, tm)
			case "openfile":
				// the flag word goes to the OS as it is, also the words an FS might be tempted to judge itself (both access bits)
				var rf *os.File
				var sf hackpadfs.File
				rf, rerr = os.OpenFile(osp(op.P), op.Flag, os.FileMode(op.Perm))
				if rerr == nil {
					_ = rf.Close()
				}
				sf, serr = hackpadfs.OpenFile(fsys, op.P, op.Flag, hackpadfs.FileMode(op.Perm))
				if serr == nil {
					_ = sf.Close()
				}
			default:
				panic("unknown op " + op.K)
			}
		})
		base := "C09/liveops " + op.K
		if pan != "" || hung {
			return base + ":crash", fmt.Sprintf("step %d %+v: %s hung=%v", i, op, pan, hung)
		}
		if (rerr == nil) != (serr == nil) {
			return base + ":success-differs", fmt.Sprintf("step %d %+v: raw os at root+name: %v; through os.FS: %v", i, op, rerr, serr)
		}
		if d := snapDiff(lsnap(refRoot), lsnap(subRoot)); d != "" {
			return base + ":tree-differs", fmt.Sprintf("after step %d %+v (%v / %v): %s", i, op, rerr, serr, d)
		}
		// reading through the FS sees what the raw os sees at root+name (follows links)
		for rel := range lsnap(refRoot) {
			rb, rerr := os.ReadFile(osp(rel))
			sb, serr := hackpadfs.ReadFile(fsys, rel)
			if (rerr == nil) != (serr == nil) || (rerr == nil && string(rb) != string(sb)) {
				rfi, _ := os.Stat(osp(rel))
				if rfi != nil && rfi.IsDir() {
					continue // reading a directory: not this leg's subject
				}
				return base + ":read-differs", fmt.Sprintf("after step %d %+v: ReadFile(%q): raw os %q, %v; through os.FS %q, %v", i, op, rel, rb, rerr, sb, serr)
			}
		}
	}
	// errors coming back from HANDLES name the caller's FS-relative path too: no error of any handle method may carry the
	// scratch directory's OS path
	if sig, msg := handleErrors(fsys, subRoot); sig != "" {
		return sig, msg
	}
	if !ref.SentinelIntact() || !sub.SentinelIntact() {
		return "C09/liveops outside-root", "something was created or changed next to the scratch root"
	}
	return "", ""
}

// handleErrors opens a read-only file handle, a read-write one and a directory handle below the root and provokes the
// failing calls a handle has (write on read-only, read on a directory, negative seek / truncate, copying from and into
// handles that cannot serve it -- io.Copy uses ReadFrom / WriteTo when present).
func handleErrors(fsys hackpadfs.FS, osRoot string) (string, string) {
	_ = hackpadfs.MkdirAll(fsys, "hx/dir", 0o755)
	_ = hackpadfs.WriteFullFile(fsys, "hx/ro", []byte("read only"), 0o644)
	_ = hackpadfs.WriteFullFile(fsys, "hx/rw", []byte("read write"), 0o644)
	ro, err1 := hackpadfs.OpenFile(fsys, "hx/ro", os.O_RDONLY, 0)
	rw, err2 := hackpadfs.OpenFile(fsys, "hx/rw", os.O_RDWR, 0)
	dir, err3 := fsys.Open("hx/dir")
	if err1 != nil || err2 != nil || err3 != nil {
		return "C09/liveops handles:open", fmt.Sprint(err1, err2, err3)
	}
	defer func() { _ = ro.Close(); _ = rw.Close(); _ = dir.Close() }()
	closed, _ := hackpadfs.OpenFile(fsys, "hx/rw", os.O_RDWR, 0)
	_ = closed.Close()
	type probe struct {
		what string
		err  error
	}
	var probes []probe
	add := func(what string, err error) { probes = append(probes, probe{what, err}) }
	pan, hung := vf.Guard(func() {
		_, err := hackpadfs.WriteFile(ro, []byte("x"))
		add("Write on a read-only handle", err)
		_, err = hackpadfs.WriteAtFile(ro, []byte("x"), 0)
		add("WriteAt on a read-only handle", err)
		add("Truncate on a read-only handle", hackpadfs.TruncateFile(ro, 1))
		_, err = dir.Read(make([]byte, 4))
		add("Read on a directory handle", err)
		_, err = hackpadfs.ReadDirFile(ro, -1)
		add("ReadDir on a file handle", err)
		_, err = hackpadfs.SeekFile(rw, -1, io.SeekStart)
		add("Seek to a negative offset", err)
		add("Truncate to a negative size", hackpadfs.TruncateFile(rw, -1))
		_, err = hackpadfs.ReadAtFile(rw, make([]byte, 2), -1)
		add("ReadAt at a negative offset", err)
		_, err = io.Copy(rwWriter{ro}, rw)
		add("io.Copy into a read-only handle", err)
		_, err = io.Copy(rwWriter{rw}, dir)
		add("io.Copy from a directory handle", err)
		_, err = io.Copy(rwWriter{closed}, ro)
		add("io.Copy into a closed handle", err)
		_, err = closed.Stat()
		add("Stat on a closed handle", err)
	})
	if pan != "" || hung {
		return "C09/liveops handles:crash", fmt.Sprintf("%s hung=%v", pan, hung)
	}
	for _, p := range probes {
		if p.err == nil || p.err == io.EOF {
			continue
		}
		if strings.Contains(p.err.Error(), osRoot) || strings.Contains(p.err.Error(), "/verifw-") {
			return "C09/liveops handles:os-path-in-error", fmt.Sprintf("%s: the error names the OS path: %v", p.what, p.err)
		}
	}
	return "", ""
}

// rwWriter exposes a handle as an io.Writer (and io.ReaderFrom when the handle has one) for io.Copy.
type rwWriter struct{ f hackpadfs.File }

func (w rwWriter) Write(p []byte) (int, error) { return hackpadfs.WriteFile(w.f, p) }
func (w rwWriter) ReadFrom(r io.Reader) (int64, error) {
	if rf, ok := w.f.(io.ReaderFrom); ok {
		return rf.ReadFrom(r)
	}
	return io.Copy(struct{ io.Writer }{w}, r)
}

func genLive(rt *rapid.T) LiveCase {
	c := LiveCase{Subs: rapid.IntRange(1, 3).Draw(rt, "subs"), FailFirst: rapid.Bool().Draw(rt, "failfirst")}
	odd := append([]string{"s"}, gen.Exotic...)
	for i, n := 0, rapid.IntRange(0, 2).Draw(rt, "chainlen"); i < n; i++ {
		c.Chain = append(c.Chain, rapid.SampledFrom(odd).Draw(rt, "chain"))
	}
	names := gen.Alphabet(rt)
	var existing []string
	pick := func(label string) string {
		if len(existing) > 0 && rapid.IntRange(0, 9).Draw(rt, label+".ex") < 6 {
			return rapid.SampledFrom(existing).Draw(rt, label+".existing")
		}
		p := gen.Random(rt, names, 3, false, label)
		return p
	}
	n := rapid.IntRange(1, 7).Draw(rt, "nops")
	for i := 0; i < n; i++ {
		op := LiveOp{K: rapid.SampledFrom([]string{"mkdirall", "mkdirall", "mkdir", "writefile", "writefile", "symlink", "symlink", "rename", "remove", "chmod", "chtimes", "openfile"}).Draw(rt, "k")}
		op.P = pick("p")
		op.Perm = 0o755
		switch op.K {
		case "writefile":
			op.Perm = 0o644
			op.Data = rapid.StringMatching("[a-z]{0,6}").Draw(rt, "data")
		case "symlink", "rename":
			op.P2 = gen.Random(rt, names, 3, false, "p2")
		case "openfile":
			op.Perm = 0o644
			op.Flag = rapid.SampledFrom([]int{os.O_RDONLY, os.O_WRONLY | os.O_CREATE, os.O_RDWR | os.O_CREATE | os.O_EXCL, os.O_RDONLY | os.O_TRUNC, os.O_WRONLY | os.O_APPEND,
				os.O_WRONLY | os.O_RDWR, os.O_WRONLY | os.O_RDWR | os.O_CREATE, os.O_RDONLY | os.O_CREATE | os.O_APPEND}).Draw(rt, "flag")
		case "chmod":
			op.Perm = uint32(rapid.SampledFrom([]int{0o700, 0o755, 0o644, 0o600}).Draw(rt, "perm"))
		}
		c.Ops = append(c.Ops, op)
		existing = append(existing, op.P)
		if op.P2 != "" {
			existing = append(existing, op.P2)
		}
	}
	c.VolAt = rapid.SampledFrom([]int{0, 0, 1, 2, 2, 3, 4}).Draw(rt, "volat")
	return c
}

func TestLiveOps(t *testing.T) {
	vf.Check(t, "liveops", func(rt *rapid.T, rec *vf.Rec) {
		c := genLive(rt)
		rec.Step(c)
		for _, op := range c.Ops {
			rec.Class("op:" + op.K)
		}
		if len(c.Ops) >= 2 {
			rec.NonTrivial()
		}
		if sig, msg := checkLive(c); sig != "" {
			rec.Failf(rt, sig, "%s", msg)
		}
	})
}

func TestReplayLiveOps(t *testing.T) {
	vf.Replay(t, "liveops", func(steps []json.RawMessage) (string, string) {
		for _, raw := range steps {
			var c LiveCase
			if err := json.Unmarshal(raw, &c); err != nil {
				return "bad-replay", err.Error()
			}
			if sig, msg := checkLive(c); sig != "" {
				return sig, msg
			}
		}
		return "", ""
	})
}
