package c15

import (
	_ "embed"
	"encoding/json"
	"fmt"
	"os"
	"sort"
	"strings"
	"sync"
	"testing"

	"verifharness/internal/vf"
)

var classKinds = []string{"mkdir", "mkdirall", "touch", "excl", "remove", "rename", "stat", "chmod", "hopen", "hwrite", "hread", "htrunc"}

var setups = [][]Op{
	nil,
	{{K: "mkdir", P: "a"}},
	{{K: "mkdir", P: "a"}, {K: "hopen", P: "a/b", Flag: os.O_RDWR | os.O_CREATE}, {K: "hwrite", Data: "xy"}, {K: "hclose"}},
	{{K: "hopen", P: "b", Flag: os.O_RDWR | os.O_CREATE}, {K: "hwrite", Data: "b0"}, {K: "hclose"}, {K: "mkdir", P: "a"}, {K: "mkdir", P: "a/c"}},
	{{K: "hopen", P: "a", Flag: os.O_RDWR | os.O_CREATE}, {K: "hwrite", Data: "a0"}, {K: "hclose"}},
}

// threadFor builds a one-operation thread of the given kind on path p (handle ops get the hopen they need).
func threadsFor(kind, p, p2 string) [][]Op {
	switch kind {
	case "rename":
		var out [][]Op
		for _, q := range paths {
			if q != p {
				out = append(out, []Op{{K: "rename", P: p, P2: q}}, []Op{{K: "rename", P: q, P2: p}})
			}
		}
		return out
	case "hopen":
		var out [][]Op
		for _, f := range []int{os.O_RDWR | os.O_CREATE, os.O_RDWR | os.O_TRUNC, os.O_WRONLY | os.O_APPEND} {
			out = append(out, []Op{{K: "hopen", P: p, Flag: f}})
		}
		return out
	case "hwrite":
		return [][]Op{
			{{K: "hopen", P: p, Flag: os.O_WRONLY | os.O_APPEND}, {K: "hwrite", Data: "Q"}},
			{{K: "hopen", P: p, Flag: os.O_RDWR}, {K: "hwrite", Data: "Q"}},
		}
	case "hread":
		return [][]Op{{{K: "hopen", P: p, Flag: os.O_RDWR}, {K: "hread"}}}
	case "htrunc":
		return [][]Op{{{K: "hopen", P: p, Flag: os.O_RDWR}, {K: "htrunc", N: 1}}}
	}
	return [][]Op{{{K: kind, P: p}}}
}

// classAnomaly searches the representative programs of a class for a non-serializable schedule.
func classAnomaly(class string) (string, string) {
	sig, msg, _ := classAnomalyCase(class)
	return sig, msg
}

func classAnomalyCase(class string) (string, string, Case) {
	parts := strings.Split(class, ":")
	ks := strings.Split(parts[0], "|")
	rel := parts[1]
	_ = rel
	for _, p := range paths {
		for _, q := range paths {
			for _, setup := range setups {
				for _, ta := range threadsFor(ks[0], p, "b") {
					for _, tb := range threadsFor(ks[1], q, "a/c") {
						prog := Program{Setup: setup, Threads: [][]Op{ta, tb}}
						if pairClass(ta, len(ta)-1, tb, len(tb)-1) != class {
							continue
						}
						// the pair under test must be the only conflicting class of the program (hopen prefixes add their own)
						n := 0
						sig, msg, trace := dfs(prog, 2, sequentialOutcomes(prog), &n)
						if sig != "" && (strings.HasPrefix(sig, "C15 not-serializable") || strings.HasPrefix(sig, "C15 panic") || strings.HasPrefix(sig, "C15 deadlock")) {
							return sig, msg, Case{Program: prog, Choices: trace}
						}
					}
				}
			}
		}
	}
	return "", "", Case{}
}

//go:embed witnesses.json
var witnessesJSON []byte

var witnessOnce sync.Once
var witnessMap map[string]Case

// witnesses: per listed class C15:ns:<class>, one concrete program + schedule that is not serializable on the pinned tree
// (written by TestEnumerateClasses / TestClosure with VERIF_C15_WITNESS_OUT). The regression probe of the class replays it.
func witnesses() map[string]Case {
	witnessOnce.Do(func() {
		witnessMap = map[string]Case{}
		_ = json.Unmarshal(witnessesJSON, &witnessMap)
	})
	return witnessMap
}

// representative classes of the two coarse known findings
var representative = map[string][]string{
	"same":         {"mkdir|mkdir:same", "hwrite|hwrite:same", "remove|rename:same"},
	"parent-child": {"mkdir|remove:parent-child", "mkdirall|touch:parent-child"},
}

func registerProbes() {
	vf.RegisterProbePrefix("C15:obs:", obsProbe)
	vf.RegisterProbePrefix("C15:ns:", func(sig string) (bool, string) {
		var s, msg string
		class := strings.TrimPrefix(sig, "C15:ns:")
		if w, ok := witnesses()[class]; ok {
			// the recorded witness first; if it no longer fails, any program of the class (single operation per thread)
			if s, msg = checkSchedule(w, nil); s == "" {
				s, msg = classAnomaly(class)
			}
		} else if reps := representative[class]; reps != nil {
			for _, c := range reps {
				if s, msg = classAnomaly(c); s != "" {
					break
				}
			}
		} else {
			s, msg = classAnomaly(class)
		}
		if s == "" {
			return false, "no non-serializable schedule found for the witness / representative programs"
		}
		if len(msg) > 300 {
			msg = msg[:300] + "..."
		}
		return true, strings.ReplaceAll(msg, "\n", " ")
	})
}

// TestEnumerateClasses (development aid, VERIF_ENUMERATE=1): prints every conflicting pair class together with
// whether the exhaustive <=2-pre-emption search finds an anomaly for its representative programs.
func TestEnumerateClasses(t *testing.T) {
	if os.Getenv("VERIF_ENUMERATE") == "" {
		t.Skip("development aid")
	}
	var lines []string
	found := map[string]Case{}
	defer func() {
		if out := os.Getenv("VERIF_C15_WITNESS_OUT"); out != "" {
			b, _ := json.MarshalIndent(found, "", " ")
			_ = os.WriteFile(out, b, 0o644)
		}
	}()
	for i, a := range classKinds {
		for _, b := range classKinds[i:] {
			if !mutates(a) && !mutates(b) {
				continue
			}
			for _, rel := range []string{"same", "parent-child", "siblings"} {
				ks := []string{a, b}
				sort.Strings(ks)
				class := ks[0] + "|" + ks[1] + ":" + rel
				sig, msg, wcase := classAnomalyCase(class)
				if sig != "" {
					found[class] = wcase
					m := strings.ReplaceAll(msg, "\n", " ")
					if len(m) > 260 {
						m = m[:260]
					}
					lines = append(lines, fmt.Sprintf("ANOMALY %s :: %s", class, m))
				} else {
					lines = append(lines, "CLEAN   "+class)
				}
			}
		}
	}
	for _, l := range lines {
		fmt.Println(l)
	}
}
