// C15: concurrent use of the in-memory FS is race-free and atomic per operation.
package c15

import (
	"encoding/json"
	"fmt"
	"io"
	"os"
	"sort"
	"strings"
	"sync"
	"testing"
	"time"

	"github.com/hack-pad/hackpadfs"
	"github.com/hack-pad/hackpadfs/keyvalue"
	"github.com/hack-pad/hackpadfs/mem"
	"pgregory.net/rapid"

	"verifharness/internal/ops"
	"verifharness/internal/sched"
	"verifharness/internal/vf"
)

func TestMain(m *testing.M) {
	registerProbes()
	vf.Main(m)
}

func must(err error) {
	if err != nil {
		panic(err)
	}
}

// Op is one operation of a thread (replay format). Each thread has one private handle slot.
type Op struct {
	K    string `json:"k"` // mkdir mkdirall touch excl remove rename stat chmod readdir hopen hwrite hread htrunc hclose
	P    string `json:"p,omitempty"`
	P2   string `json:"p2,omitempty"`
	Data string `json:"data,omitempty"`
	Flag int    `json:"flag,omitempty"`
	N    int    `json:"n,omitempty"`
}

func (o Op) String() string {
	switch o.K {
	case "rename":
		return fmt.Sprintf("rename(%s,%s)", o.P, o.P2)
	case "hopen":
		return fmt.Sprintf("hopen(%s,%s)", o.P, ops.FlagString(o.Flag))
	case "hwrite":
		return fmt.Sprintf("hwrite(%q)", o.Data)
	case "hread", "hclose":
		return o.K
	case "htrunc":
		return fmt.Sprintf("htrunc(%d)", o.N)
	case "hpread":
		return fmt.Sprintf("hpread(%d)", o.N)
	}
	return fmt.Sprintf("%s(%s)", o.K, o.P)
}

// Program: setup (sequential) + threads.
type Program struct {
	Setup   []Op   `json:"setup"`
	Threads [][]Op `json:"threads"`
}

type world struct {
	fs      hackpadfs.FS
	handles []hackpadfs.File
}

func apply(w *world, thread int, o Op) string {
	fs := w.fs
	res := func(err error) string {
		if err == nil {
			return "ok"
		}
		if c := ops.ErrClass(err); c != "other" || os.Getenv("VERIF_C15_RAWERR") == "" {
			return "err:" + c
		}
		return "err:other(" + err.Error() + ")"
	}
	switch o.K {
	case "mkdir":
		return res(hackpadfs.Mkdir(fs, o.P, 0o755))
	case "mkdirall":
		return res(hackpadfs.MkdirAll(fs, o.P, 0o750))
	case "touch":
		f, err := hackpadfs.OpenFile(fs, o.P, os.O_RDWR|os.O_CREATE, 0o644)
		if err == nil {
			_ = f.Close()
		}
		return res(err)
	case "excl":
		f, err := hackpadfs.OpenFile(fs, o.P, os.O_RDWR|os.O_CREATE|os.O_EXCL, 0o600)
		if err == nil {
			_ = f.Close()
		}
		return res(err)
	case "remove":
		return res(hackpadfs.Remove(fs, o.P))
	case "rename":
		return res(hackpadfs.Rename(fs, o.P, o.P2))
	case "chmod":
		return res(hackpadfs.Chmod(fs, o.P, 0o600))
	case "stat":
		fi, err := hackpadfs.Stat(fs, o.P)
		if err != nil {
			return res(err)
		}
		if fi.IsDir() {
			return "ok:dir"
		}
		return fmt.Sprintf("ok:file:%d", fi.Size())
	case "readdir":
		entries, err := hackpadfs.ReadDir(fs, o.P)
		if err != nil {
			return res(err)
		}
		var names []string
		for _, e := range entries {
			n := e.Name()
			if e.IsDir() {
				n += "/"
			}
			names = append(names, n)
		}
		sort.Strings(names)
		return "ok:[" + strings.Join(names, " ") + "]"
	case "catraw":
		_, err := hackpadfs.ReadFile(fs, o.P)
		return fmt.Sprintf("%T %v", err, err)
	case "cat":
		b, err := hackpadfs.ReadFile(fs, o.P)
		if err != nil {
			return res(err)
		}
		return "ok:" + string(b)
	case "hopen":
		if w.handles[thread] != nil {
			_ = w.handles[thread].Close()
			w.handles[thread] = nil
		}
		f, err := hackpadfs.OpenFile(fs, o.P, o.Flag, 0o644)
		if err == nil {
			w.handles[thread] = f
		}
		return res(err)
	case "hwrite":
		if w.handles[thread] == nil {
			return "nohandle"
		}
		n, err := hackpadfs.WriteFile(w.handles[thread], []byte(o.Data))
		if err != nil {
			return res(err)
		}
		return fmt.Sprintf("ok:%d", n)
	case "hread":
		if w.handles[thread] == nil {
			return "nohandle"
		}
		if _, err := hackpadfs.SeekFile(w.handles[thread], 0, io.SeekStart); err != nil {
			return res(err)
		}
		b, err := io.ReadAll(w.handles[thread])
		if err != nil {
			return res(err)
		}
		return "ok:" + string(b)
	case "hpread":
		// positional read of 4 bytes at offset N: does not move the handle's offset; EOF is an ordinary answer
		if w.handles[thread] == nil {
			return "nohandle"
		}
		buf := make([]byte, 4)
		n, err := hackpadfs.ReadAtFile(w.handles[thread], buf, int64(o.N))
		if err != nil && err != io.EOF {
			return res(err)
		}
		return "ok:" + string(buf[:n])
	case "htrunc":
		if w.handles[thread] == nil {
			return "nohandle"
		}
		return res(hackpadfs.TruncateFile(w.handles[thread], int64(o.N)))
	case "hclose":
		if w.handles[thread] == nil {
			return "nohandle"
		}
		err := w.handles[thread].Close()
		w.handles[thread] = nil
		return res(err)
	}
	panic("unknown op " + o.K)
}

func snapString(fs hackpadfs.FS) string {
	snap, prob := ops.SnapFS(fs)
	if prob != "" {
		return "SNAPSHOT-PROBLEM " + prob
	}
	var ks []string
	for k := range snap {
		ks = append(ks, k)
	}
	sort.Strings(ks)
	var b strings.Builder
	for _, k := range ks {
		n := snap[k]
		if n.Kind == 'd' {
			fmt.Fprintf(&b, "%s/ %o;", k, n.Perm)
		} else {
			fmt.Fprintf(&b, "%s %o %q %s;", k, n.Perm, n.Data, n.Err)
		}
	}
	return b.String()
}

// outcome = per-op results (thread.index=result) + final tree.
func outcomeString(results [][]string, tree string) string {
	var b strings.Builder
	for t, rs := range results {
		for i, r := range rs {
			fmt.Fprintf(&b, "%d.%d=%s|", t, i, r)
		}
	}
	return b.String() + " TREE " + tree
}

func newPlainWorld(p Program) *world {
	fs, err := mem.NewFS()
	must(err)
	w := &world{fs: fs, handles: make([]hackpadfs.File, len(p.Threads)+1)}
	for _, o := range p.Setup {
		_ = apply(w, len(p.Threads), o)
	}
	return w
}

// sequentialOutcomes runs every program-order-respecting sequential order and collects the outcomes.
func sequentialOutcomes(p Program) map[string]bool {
	out := map[string]bool{}
	idx := make([]int, len(p.Threads))
	var order [][2]int
	var rec func()
	rec = func() {
		done := true
		for t := range p.Threads {
			if idx[t] < len(p.Threads[t]) {
				done = false
				order = append(order, [2]int{t, idx[t]})
				idx[t]++
				rec()
				idx[t]--
				order = order[:len(order)-1]
			}
		}
		if done {
			w := newPlainWorld(p)
			results := make([][]string, len(p.Threads))
			for t := range p.Threads {
				results[t] = make([]string, len(p.Threads[t]))
			}
			for _, st := range order {
				results[st[0]][st[1]] = apply(w, st[0], p.Threads[st[0]][st[1]])
			}
			out[outcomeString(results, snapString(w.fs))] = true
		}
	}
	rec()
	return out
}

type schedRun struct {
	outcome  string
	trace    []int
	runnable [][]int
	ok       bool
	preempt  int
}

// runScheduled executes the program over the real mem store under the cooperative scheduler.
func runScheduled(p Program, choices []int, byThread bool) schedRun {
	s := sched.New(choices)
	s.ByThread = byThread
	st := &sched.Store{Inner: mem.NewStoreForVerif(), S: s, Blobs: true}
	fs, err := keyvalue.NewFS(st)
	must(err)
	w := &world{fs: fs, handles: make([]hackpadfs.File, len(p.Threads)+1)}
	for _, o := range p.Setup {
		_ = apply(w, len(p.Threads), o)
	}
	results := make([][]string, len(p.Threads))
	bodies := make([]func(), len(p.Threads))
	for t := range p.Threads {
		t := t
		results[t] = make([]string, len(p.Threads[t]))
		bodies[t] = func() {
			for i, o := range p.Threads[t] {
				func() {
					defer func() {
						if r := recover(); r != nil {
							results[t][i] = fmt.Sprintf("PANIC:%v", r)
						}
					}()
					results[t][i] = apply(w, t, o)
				}()
			}
		}
	}
	ok := s.Run(vf.WatchdogDur(), bodies...)
	r := schedRun{trace: s.Trace, runnable: s.Runnable, ok: ok, preempt: s.Preemptions}
	if ok {
		r.outcome = outcomeString(results, snapString(fs))
	}
	return r
}

// ------------------------------------------------------------------ path relations and classes

var paths = []string{"a", "b", "a/b", "a/c"}

func relation(p, q string) string {
	switch {
	case p == q:
		return "same"
	case strings.HasPrefix(q, p+"/") || strings.HasPrefix(p, q+"/"):
		return "parent-child"
	case parent(p) == parent(q):
		return "siblings"
	}
	return "unrelated"
}

func parent(p string) string {
	if i := strings.LastIndex(p, "/"); i >= 0 {
		return p[:i]
	}
	return "."
}

func mutates(k string) bool {
	switch k {
	case "stat", "hread", "hpread", "hclose", "readdir", "cat":
		return false
	}
	return true
}

// pathsOf: the paths an op touches (handle ops touch the path their thread's handle was opened on).
func pathsOf(thread []Op, i int) []string {
	o := thread[i]
	switch o.K {
	case "rename":
		return []string{o.P, o.P2}
	case "hwrite", "hread", "hpread", "htrunc", "hclose":
		for j := i - 1; j >= 0; j-- {
			if thread[j].K == "hopen" {
				return []string{thread[j].P}
			}
		}
		return nil
	}
	return []string{o.P}
}

// class of a cross-thread pair of operations: unordered kinds + strongest path relation.
func pairClass(ta []Op, i int, tb []Op, j int) string {
	a, b := ta[i], tb[j]
	rank := map[string]int{"unrelated": 0, "siblings": 1, "parent-child": 2, "same": 3}
	best := ""
	for _, p := range pathsOf(ta, i) {
		for _, q := range pathsOf(tb, j) {
			r := relation(p, q)
			if best == "" || rank[r] > rank[best] {
				best = r
			}
		}
	}
	if best == "" {
		best = "unrelated"
	}
	ks := []string{a.K, b.K}
	sort.Strings(ks)
	return ks[0] + "|" + ks[1] + ":" + best
}

// conflicting: the two operations touch related paths and at least one mutates.
func conflicting(class string, a, b Op) bool {
	return !strings.HasSuffix(class, ":unrelated") && (mutates(a.K) || mutates(b.K))
}

// ------------------------------------------------------------------ generation

func genOp(t *rapid.T, pool []string, hasHandle bool) Op {
	kinds := []string{"mkdir", "mkdir", "mkdirall", "touch", "touch", "excl", "remove", "remove", "rename", "stat", "stat", "chmod", "hopen", "hopen"}
	if hasHandle {
		kinds = append(kinds, "hwrite", "hwrite", "hwrite", "hread", "hread", "htrunc", "hclose")
	}
	o := Op{K: rapid.SampledFrom(kinds).Draw(t, "k"), P: rapid.SampledFrom(pool).Draw(t, "p")}
	switch o.K {
	case "rename":
		o.P2 = rapid.SampledFrom(pool).Draw(t, "p2")
	case "hopen":
		o.Flag = rapid.SampledFrom([]int{os.O_RDWR, os.O_RDWR | os.O_CREATE, os.O_WRONLY | os.O_APPEND, os.O_RDWR | os.O_APPEND | os.O_CREATE, os.O_RDWR | os.O_TRUNC}).Draw(t, "flag")
	case "hwrite":
		o.P = ""
		o.Data = rapid.StringMatching("[A-Z]{1,3}").Draw(t, "data")
	case "htrunc":
		o.P = ""
		o.N = rapid.IntRange(0, 4).Draw(t, "n")
	case "hread", "hclose":
		o.P = ""
	}
	return o
}

func genSetup(t *rapid.T) []Op {
	var setup []Op
	if rapid.Bool().Draw(t, "dir-a") {
		setup = append(setup, Op{K: "mkdir", P: "a"})
		if rapid.Bool().Draw(t, "file-a/b") {
			setup = append(setup, Op{K: "hopen", P: "a/b", Flag: os.O_RDWR | os.O_CREATE}, Op{K: "hwrite", Data: "xy"}, Op{K: "hclose"})
		}
	}
	if rapid.Bool().Draw(t, "file-b") {
		setup = append(setup, Op{K: "hopen", P: "b", Flag: os.O_RDWR | os.O_CREATE}, Op{K: "hwrite", Data: "b0"}, Op{K: "hclose"})
	}
	return setup
}

// siblingPools: per-thread path pools that are pairwise siblings or unrelated (never the same path, never an
// ancestor of each other). Used while the known findings C15:ns:* are active, so that generation constructs
// programs outside the known-bad region instead of rejecting most draws.
var siblingPools = [][]string{{"a/b", "a/d"}, {"a/c", "a/e"}, {"b", "c"}}

func genProgram(t *rapid.T, disjoint bool) Program { return genProgramMode(t, disjoint, false) }

// genProgramMode: free=true never restricts the path pools (legs without a serializability oracle).
func genProgramMode(t *rapid.T, disjoint, free bool) Program {
	p := Program{Setup: genSetup(t)}
	nt := rapid.IntRange(2, 3).Draw(t, "threads")
	restricted := !free && !disjoint && (vf.Known("C15:ns:same") || vf.Known("C15:ns:parent-child"))
	if restricted {
		p.Setup = []Op{{K: "mkdir", P: "a"}}
		if rapid.Bool().Draw(t, "file-a/b") {
			p.Setup = append(p.Setup, Op{K: "hopen", P: "a/b", Flag: os.O_RDWR | os.O_CREATE}, Op{K: "hwrite", Data: "xy"}, Op{K: "hclose"})
		}
		if rapid.Bool().Draw(t, "file-a/c") {
			p.Setup = append(p.Setup, Op{K: "hopen", P: "a/c", Flag: os.O_RDWR | os.O_CREATE}, Op{K: "hwrite", Data: "cd"}, Op{K: "hclose"})
		}
		if rapid.Bool().Draw(t, "file-b") {
			p.Setup = append(p.Setup, Op{K: "hopen", P: "b", Flag: os.O_RDWR | os.O_CREATE}, Op{K: "hwrite", Data: "b0"}, Op{K: "hclose"})
		}
	}
	for th := 0; th < nt; th++ {
		pool := paths
		if restricted {
			pool = siblingPools[th]
		}
		if disjoint {
			// each thread is confined to its own subtree
			base := fmt.Sprintf("t%d", th)
			p.Setup = append(p.Setup, Op{K: "mkdir", P: base})
			pool = []string{base + "/a", base + "/b", base + "/a/b"}
		}
		n := rapid.IntRange(1, 3).Draw(t, "nops")
		var opsT []Op
		has := false
		for i := 0; i < n; i++ {
			o := genOp(t, pool, has)
			if o.K == "hopen" {
				has = true
			}
			if o.K == "hclose" {
				has = false
			}
			opsT = append(opsT, o)
		}
		p.Threads = append(p.Threads, opsT)
	}
	return p
}

// knownPairSig: the listed, still reproducing finding the pair (ta[i], tb[j]) falls under ("" if none). Findings are
// listed per class (operation kinds + path relation, C15:ns:<class>); the two coarse relation-wide entries of earlier
// versions (C15:ns:same, C15:ns:parent-child) are still honoured if present.
func knownPairSig(ta []Op, i int, tb []Op, j int) string {
	c := pairClass(ta, i, tb, j)
	if !conflicting(c, ta[i], tb[j]) {
		return ""
	}
	if vf.Known("C15:ns:" + c) {
		return "C15:ns:" + c
	}
	if rel := c[strings.LastIndex(c, ":")+1:]; (rel == "same" || rel == "parent-child") && vf.Known("C15:ns:"+rel) {
		return "C15:ns:" + rel
	}
	return ""
}

// knownConflict returns the finding of a cross-thread conflicting pair that is listed and still reproducing.
func knownConflict(p Program) string {
	for a := 0; a < len(p.Threads); a++ {
		for b := a + 1; b < len(p.Threads); b++ {
			for i := range p.Threads[a] {
				for j := range p.Threads[b] {
					if k := knownPairSig(p.Threads[a], i, p.Threads[b], j); k != "" {
						return k
					}
				}
			}
		}
	}
	return ""
}

// candidateOps: every operation instance a thread could issue next (weights by repetition of the kind).
func candidateOps(pool []string, hasHandle bool) map[string][]Op {
	out := map[string][]Op{}
	for _, p := range pool {
		for _, k := range []string{"mkdir", "mkdirall", "touch", "excl", "remove", "stat", "chmod"} {
			out[k] = append(out[k], Op{K: k, P: p})
		}
		for _, q := range pool {
			out["rename"] = append(out["rename"], Op{K: "rename", P: p, P2: q})
		}
		for _, f := range []int{os.O_RDWR, os.O_RDWR | os.O_CREATE, os.O_WRONLY | os.O_APPEND, os.O_RDWR | os.O_APPEND | os.O_CREATE, os.O_RDWR | os.O_TRUNC} {
			out["hopen"] = append(out["hopen"], Op{K: "hopen", P: p, Flag: f})
		}
	}
	if hasHandle {
		for _, k := range []string{"hwrite", "hread", "htrunc", "hclose"} {
			out[k] = []Op{{K: k}}
		}
	}
	return out
}

// genProgramAvoiding constructs a program none of whose cross-thread pairs falls under a listed finding: every next
// operation is drawn from the candidates compatible with the operations the other threads already have (construction,
// not rejection). excluded counts the candidates that were filtered out.
func genProgramAvoiding(t *rapid.T) (p Program, excluded int) {
	p = Program{Setup: genSetup(t)}
	nt := rapid.IntRange(2, 3).Draw(t, "threads")
	weights := []string{"mkdir", "mkdir", "mkdirall", "touch", "touch", "excl", "remove", "remove", "rename", "stat", "stat", "chmod", "hopen", "hopen"}
	for th := 0; th < nt; th++ {
		n := rapid.IntRange(1, 3).Draw(t, "nops")
		var cur []Op
		has := false
		for i := 0; i < n; i++ {
			cands := candidateOps(paths, has)
			ok := map[string][]Op{}
			for k, cs := range cands {
				for _, c := range cs {
					trial := append(append([]Op{}, cur...), c)
					bad := false
					if c.K == "mkdirall" && strings.Contains(c.P, "/") && vf.Known("C15:obs:mkdirall(x)/plain") {
						// MkdirAll that may have to create two levels is one store transaction per level (listed finding,
						// identified exactly in the observers leg): its intermediate state shows through ANY concurrent
						// operation on the parent, so it is left out here as a whole
						bad = true
					}
					for _, other := range p.Threads {
						for j := range other {
							if knownPairSig(trial, len(trial)-1, other, j) != "" {
								bad = true
							}
						}
					}
					if bad {
						excluded++
					} else {
						ok[k] = append(ok[k], c)
					}
				}
			}
			ws := weights
			if has {
				ws = append(append([]string{}, weights...), "hwrite", "hwrite", "hwrite", "hread", "hread", "htrunc", "hclose")
			}
			var kinds []string
			for _, k := range ws {
				if len(ok[k]) > 0 {
					kinds = append(kinds, k)
				}
			}
			if len(kinds) == 0 {
				break
			}
			k := rapid.SampledFrom(kinds).Draw(t, "k")
			o := rapid.SampledFrom(ok[k]).Draw(t, "op")
			switch o.K {
			case "hwrite":
				o.Data = rapid.StringMatching("[A-Z]{1,3}").Draw(t, "data")
			case "htrunc":
				o.N = rapid.IntRange(0, 4).Draw(t, "n")
			case "hopen":
				has = true
			case "hclose":
				has = false
			}
			cur = append(cur, o)
		}
		if len(cur) == 0 {
			// nothing is compatible with what the other threads do: an observation of an unrelated path
			cur = []Op{{K: "stat", P: "z/z"}}
		}
		p.Threads = append(p.Threads, cur)
	}
	return p, excluded
}

func firstConflictClass(p Program) string {
	for a := 0; a < len(p.Threads); a++ {
		for b := a + 1; b < len(p.Threads); b++ {
			for i := range p.Threads[a] {
				for j := range p.Threads[b] {
					c := pairClass(p.Threads[a], i, p.Threads[b], j)
					if conflicting(c, p.Threads[a][i], p.Threads[b][j]) {
						return c
					}
				}
			}
		}
	}
	return "none"
}

// ------------------------------------------------------------------ serializability

// Case is the replay format of the serializability legs.
type Case struct {
	Program Program `json:"program"`
	Choices []int   `json:"choices"` // thread indices, one per scheduling step
}

func checkSchedule(c Case, allowed map[string]bool) (string, string) {
	if allowed == nil {
		allowed = sequentialOutcomes(c.Program)
	}
	r := runScheduled(c.Program, c.Choices, true)
	cls := firstConflictClass(c.Program)
	if !r.ok {
		return "C15 deadlock:" + cls, fmt.Sprintf("program %v under schedule %v did not finish (a thread is blocked)", c.Program.Threads, r.trace)
	}
	if strings.Contains(r.outcome, "PANIC:") {
		return "C15 panic:" + cls, fmt.Sprintf("program %v under schedule %v: %s", c.Program.Threads, r.trace, r.outcome)
	}
	if !allowed[r.outcome] {
		var some []string
		for o := range allowed {
			some = append(some, o)
			if len(some) == 3 {
				break
			}
		}
		return "C15 not-serializable:" + cls, fmt.Sprintf("setup %v threads %v under schedule %v gives\n  %s\nwhich no sequential order of the operations produces (%d sequential outcomes, e.g.\n  %s)", c.Program.Setup, c.Program.Threads, r.trace, r.outcome, len(allowed), strings.Join(some, "\n  "))
	}
	return "", ""
}

// TestSerializable: rapid-drawn programs and schedules.
func TestSerializable(t *testing.T) {
	vf.Check(t, "serial", func(rt *rapid.T, rec *vf.Rec) {
		p, nexcl := genProgramAvoiding(rt)
		if nexcl > 0 {
			rec.Excluded("C15:ns:candidate-operations-of-listed-classes")
		}
		if k := knownConflict(p); k != "" {
			panic(fmt.Sprintf("generator produced a listed class: %s in %v", k, p.Threads))
		}
		allowed := sequentialOutcomes(p)
		nsched := 12
		c := Case{Program: p}
		rec.Step(c.Program)
		conf := firstConflictClass(p)
		rec.Class("conflict:" + conf)
		if conf != "none" {
			rec.NonTrivial()
		}
		for i := 0; i < nsched; i++ {
			c.Choices = rapid.SliceOfN(rapid.IntRange(0, len(p.Threads)-1), 0, 40).Draw(rt, "schedule")
			if sig, msg := checkSchedule(c, allowed); sig != "" {
				rec.Step(c)
				rec.Failf(rt, sig, "%s", msg)
			}
		}
	})
}

// dfs explores every schedule with at most maxPre pre-emptions. Returns the first violation.
func dfs(p Program, maxPre int, allowed map[string]bool, count *int) (string, string, []int) {
	var explore func(prefix []int) (string, string, []int)
	preemptionsOf := func(trace []int, runnable [][]int) int {
		n := 0
		for i := 1; i < len(trace); i++ {
			if trace[i] != trace[i-1] {
				for _, r := range runnable[i] {
					if r == trace[i-1] {
						n++
					}
				}
			}
		}
		return n
	}
	explore = func(prefix []int) (string, string, []int) {
		c := Case{Program: p, Choices: prefix}
		r := runScheduled(p, prefix, true)
		*count++
		if sig, msg := judge(c, r, allowed); sig != "" {
			return sig, msg, r.trace
		}
		for i := len(prefix); i < len(r.trace); i++ {
			for _, alt := range r.runnable[i] {
				if alt == r.trace[i] {
					continue
				}
				np := append(append([]int{}, r.trace[:i]...), alt)
				// budget: count pre-emptions of the new prefix
				rn := append(append([][]int{}, r.runnable[:i]...), r.runnable[i])
				if preemptionsOf(np, rn) > maxPre {
					continue
				}
				if sig, msg, tr := explore(np); sig != "" {
					return sig, msg, tr
				}
			}
		}
		return "", "", nil
	}
	return explore(nil)
}

func judge(c Case, r schedRun, allowed map[string]bool) (string, string) {
	cls := firstConflictClass(c.Program)
	if !r.ok {
		return "C15 deadlock:" + cls, fmt.Sprintf("program %v under schedule %v did not finish", c.Program.Threads, r.trace)
	}
	if strings.Contains(r.outcome, "PANIC:") {
		return "C15 panic:" + cls, fmt.Sprintf("program %v under schedule %v: %s", c.Program.Threads, r.trace, r.outcome)
	}
	if !allowed[r.outcome] {
		return "C15 not-serializable:" + cls, fmt.Sprintf("setup %v threads %v under schedule %v gives\n  %s\nwhich no sequential order of the operations produces (%d sequential outcomes)", c.Program.Setup, c.Program.Threads, r.trace, r.outcome, len(allowed))
	}
	return "", ""
}

// TestSerializableDFS: per generated program, EVERY schedule with <= 2 pre-emptions.
func TestSerializableDFS(t *testing.T) {
	vf.Check(t, "dfs", func(rt *rapid.T, rec *vf.Rec) {
		p, nexcl := genProgramAvoiding(rt)
		if nexcl > 0 {
			rec.Excluded("C15:ns:candidate-operations-of-listed-classes")
		}
		if k := knownConflict(p); k != "" {
			panic(fmt.Sprintf("generator produced a listed class: %s in %v", k, p.Threads))
		}
		rec.Step(p)
		conf := firstConflictClass(p)
		rec.Class("conflict:" + conf)
		if conf != "none" {
			rec.NonTrivial()
		}
		n := 0
		sig, msg, trace := dfs(p, 2, sequentialOutcomes(p), &n)
		rec.Count("schedules", n)
		if sig != "" {
			rec.Step(Case{Program: p, Choices: trace})
			rec.Failf(rt, sig, "%s", msg)
		}
	})
}

// TestIndependence: threads confined to disjoint subtrees: each thread's results equal its solo results and the
// final tree is the union, under every explored schedule.
func TestIndependence(t *testing.T) {
	vf.Check(t, "independence", func(rt *rapid.T, rec *vf.Rec) {
		p := genProgram(rt, true)
		rec.Step(p)
		rec.NonTrivial()
		// solo results: run each thread alone (others empty)
		want := make([][]string, len(p.Threads))
		w := newPlainWorld(p)
		for th := range p.Threads {
			want[th] = make([]string, len(p.Threads[th]))
			for i, o := range p.Threads[th] {
				want[th][i] = apply(w, th, o)
			}
		}
		wantOutcome := outcomeString(want, snapString(w.fs))
		n := 0
		sig, msg, trace := dfs(p, 2, map[string]bool{wantOutcome: true}, &n)
		rec.Count("schedules", n)
		if sig != "" {
			rec.Step(Case{Program: p, Choices: trace})
			rec.Failf(rt, strings.Replace(sig, "not-serializable", "not-independent", 1), "%s", msg)
		}
	})
}

// ------------------------------------------------------------------ free-running leg (race detector in thorough)

func TestFreeRunning(t *testing.T) {
	vf.Check(t, "free", func(rt *rapid.T, rec *vf.Rec) {
		p := genProgramMode(rt, false, true) // unrestricted: conflicting operations on the same paths included
		if rapid.Bool().Draw(rt, "hotfile") {
			// every thread hammers the same file through its own handle
			p.Setup = []Op{{K: "hopen", P: "b", Flag: os.O_RDWR | os.O_CREATE}, {K: "hwrite", Data: "b0"}, {K: "hclose"}}
			for th := range p.Threads {
				flag := rapid.SampledFrom([]int{os.O_RDWR, os.O_WRONLY | os.O_APPEND, os.O_RDWR | os.O_TRUNC}).Draw(rt, "hotflag")
				body := []Op{{K: "hopen", P: "b", Flag: flag}}
				for i := 0; i < 3; i++ {
					body = append(body, genOp(rt, []string{"b"}, true))
				}
				p.Threads[th] = body
			}
		}
		rec.Step(p)
		rec.NonTrivial()
		for rep := 0; rep < 20; rep++ {
			w := newPlainWorld(p)
			var wg sync.WaitGroup
			panics := make(chan string, 8)
			start := make(chan struct{})
			for th := range p.Threads {
				th := th
				wg.Add(1)
				go func() {
					defer wg.Done()
					defer func() {
						if r := recover(); r != nil {
							panics <- fmt.Sprint(r)
						}
					}()
					<-start
					for iter := 0; iter < 5; iter++ {
						for _, o := range p.Threads[th] {
							_ = apply(w, th, o)
						}
					}
				}()
			}
			close(start)
			done := make(chan struct{})
			go func() { wg.Wait(); close(done) }()
			select {
			case <-done:
			case <-time.After(vf.WatchdogDur()):
				rec.Failf(rt, "C15 free:deadlock", "program %v did not finish when run on real goroutines", p.Threads)
			}
			select {
			case m := <-panics:
				rec.Failf(rt, "C15 free:panic", "program %v: %s", p.Threads, m)
			default:
			}
		}
	})
}

// ------------------------------------------------------------------ blob storm: sub-operation windows

// TestBlobStorm: several goroutines, each with its own handle on ONE file, repeat a short generated body of size-changing
// and reading operations a few hundred times on real cores. The cooperative scheduler's granularity is one blob operation;
// windows INSIDE an operation (a length read before the lock is taken, a bound checked before the copy) are only reachable
// this way. Oracle: every goroutine finishes (no deadlock), nothing panics, and afterwards the file is still usable and
// consistent (Stat size == bytes read, a fresh write/truncate works).
func TestBlobStorm(t *testing.T) {
	vf.Check(t, "storm", func(rt *rapid.T, rec *vf.Rec) {
		nt := rapid.IntRange(2, 4).Draw(rt, "threads")
		p := Program{Setup: []Op{{K: "hopen", P: "b", Flag: os.O_RDWR | os.O_CREATE}, {K: "hwrite", Data: "0123456789"}, {K: "hclose"}}}
		for th := 0; th < nt; th++ {
			flag := rapid.SampledFrom([]int{os.O_RDWR, os.O_RDWR, os.O_WRONLY | os.O_APPEND}).Draw(rt, "flag")
			body := []Op{{K: "hopen", P: "b", Flag: flag}}
			n := rapid.IntRange(1, 4).Draw(rt, "nops")
			for i := 0; i < n; i++ {
				// reads are positional (hpread): a read that follows the offset to the end of the file (hread) would make
				// the next write land wherever the racing size happened to be, and sizes then double per lost race (the
				// listed non-atomicity of same-file operations), which only makes the case slow
				o := Op{K: rapid.SampledFrom([]string{"htrunc", "htrunc", "htrunc", "hwrite", "hwrite", "hpread", "hpread"}).Draw(rt, "k")}
				switch o.K {
				case "hpread":
					o.N = rapid.IntRange(0, 12).Draw(rt, "off")
				case "htrunc":
					o.N = rapid.IntRange(0, 12).Draw(rt, "n")
				case "hwrite":
					o.Data = rapid.StringMatching("[A-Z]{1,6}").Draw(rt, "data")
				}
				body = append(body, o)
			}
			p.Threads = append(p.Threads, body)
		}
		rec.Step(p)
		rec.NonTrivial()
		if sig, msg := runStorm(p); sig != "" {
			rec.Failf(rt, sig, "%s", msg)
		}
	})
}

func runStorm(p Program) (string, string) {
	for rep := 0; rep < 3; rep++ {
		w := newPlainWorld(p)
		var wg sync.WaitGroup
		panics := make(chan string, 8)
		badResults := make(chan string, 8)
		start := make(chan struct{})
		for th := range p.Threads {
			th := th
			wg.Add(1)
			go func() {
				defer wg.Done()
				defer func() {
					if r := recover(); r != nil {
						panics <- fmt.Sprint(r)
					}
				}()
				_ = apply(w, th, p.Threads[th][0])
				readable := p.Threads[th][0].Flag&3 == os.O_RDWR
				<-start
				for iter := 0; iter < 300; iter++ {
					for _, o := range p.Threads[th][1:] {
						r := apply(w, th, o)
						// every one of these operations succeeds in every sequential order (sizes are >= 0, the handle is
						// open, reads only on readable handles): an error result has no sequential explanation
						if strings.HasPrefix(r, "err:") && ((o.K != "hread" && o.K != "hpread") || readable) {
							select {
							case badResults <- fmt.Sprintf("thread %d %v = %s", th, o, r):
							default:
							}
						}
					}
				}
			}()
		}
		close(start)
		done := make(chan struct{})
		go func() { wg.Wait(); close(done) }()
		select {
		case <-done:
		case <-time.After(vf.WatchdogDur()):
			return "C15 storm:deadlock", fmt.Sprintf("program %v did not finish when run on real goroutines (an operation on the shared file blocks forever)", p.Threads)
		}
		select {
		case m := <-panics:
			return "C15 storm:panic", fmt.Sprintf("program %v: %s", p.Threads, m)
		default:
		}
		select {
		case m := <-badResults:
			return "C15 storm:error-result", fmt.Sprintf("program %v: %s -- an operation that succeeds in every sequential order failed while the others ran", p.Threads, m)
		default:
		}
		// the file is still usable and consistent
		var prob string
		pan, hung := vf.Guard(func() {
			fi, err := hackpadfs.Stat(w.fs, "b")
			if err != nil {
				prob = "Stat: " + err.Error()
				return
			}
			b, err := hackpadfs.ReadFile(w.fs, "b")
			if err != nil || int64(len(b)) != fi.Size() {
				prob = fmt.Sprintf("Stat size %d, ReadFile %d bytes, %v", fi.Size(), len(b), err)
				return
			}
			f, err := hackpadfs.OpenFile(w.fs, "b", os.O_RDWR, 0)
			if err != nil {
				prob = "OpenFile: " + err.Error()
				return
			}
			defer func() { _ = f.Close() }()
			if err := hackpadfs.TruncateFile(f, 1); err != nil {
				prob = "Truncate: " + err.Error()
				return
			}
			if _, err := hackpadfs.WriteFile(f, []byte("zz")); err != nil {
				prob = "Write: " + err.Error()
			}
		})
		if hung {
			return "C15 storm:deadlock", fmt.Sprintf("after program %v the shared file no longer answers (Stat/ReadFile/Truncate/Write block)", p.Threads)
		}
		if pan != "" || prob != "" {
			return "C15 storm:inconsistent", fmt.Sprintf("after program %v: %s %s", p.Threads, prob, pan)
		}
	}
	return "", ""
}

// ------------------------------------------------------------------ replay

func TestReplayAll(t *testing.T) {
	for _, leg := range []string{"serial", "dfs", "independence"} {
		leg := leg
		t.Run(leg, func(t *testing.T) {
			vf.Replay(t, leg, func(steps []json.RawMessage) (string, string) {
				for _, raw := range steps {
					var c Case
					if err := json.Unmarshal(raw, &c); err != nil || len(c.Program.Threads) == 0 {
						continue
					}
					return checkSchedule(c, nil)
				}
				return "", ""
			})
		})
	}
	t.Run("storm", func(t *testing.T) {
		vf.Replay(t, "storm", func(steps []json.RawMessage) (string, string) {
			for _, raw := range steps {
				var p Program
				if err := json.Unmarshal(raw, &p); err != nil || len(p.Threads) == 0 {
					continue
				}
				for i := 0; i < 5; i++ { // real goroutines: the window is hit with some probability per run
					if sig, msg := runStorm(p); sig != "" {
						return sig, msg
					}
				}
			}
			return "", ""
		})
	})
	t.Run("dirstorm", func(t *testing.T) {
		vf.Replay(t, "dirstorm", func(steps []json.RawMessage) (string, string) {
			for _, raw := range steps {
				var p Program
				if err := json.Unmarshal(raw, &p); err != nil || len(p.Threads) == 0 {
					continue
				}
				for i := 0; i < 5; i++ { // real goroutines: the window is hit with some probability per run
					if sig, msg := runDirStorm(p); sig != "" {
						return sig, msg
					}
				}
			}
			return "", ""
		})
	})
	for _, leg := range []string{"observers", "observers-canon"} {
		leg := leg
		t.Run(leg, func(t *testing.T) {
			vf.Replay(t, leg, func(steps []json.RawMessage) (string, string) {
				for _, raw := range steps {
					var c Case
					if err := json.Unmarshal(raw, &c); err != nil || len(c.Program.Threads) == 0 {
						continue
					}
					if sig, msg := checkSchedule(c, nil); sig != "" {
						kind := strings.Fields(strings.SplitN(sig, ":", 2)[0])[1]
						return "C15 " + kind + " " + obsClass(c.Program), msg
					}
					return "", ""
				}
				return "", ""
			})
		})
	}
}

// ------------------------------------------------------------------ directory storm: listings while records are rewritten

// TestDirStorm: a directory "a" with children that exist for the WHOLE run (files a/b, a/c, directory a/d holding a/d/e) plus
// a volatile child a/v. Mutator goroutines rewrite the records of the permanent children over and over (chmod, writes and
// truncates through their own handle, re-creating opens, failing exclusive creates / mkdirs) and create / remove a/v;
// observer goroutines list, stat, read and try to remove the directories, all on real cores. Listing reads the record map
// outside the store's transactions, so a window inside ONE store.Set is visible to it and to nothing the cooperative
// scheduler can pre-empt. Oracle (no sequential order explains anything else): every listing of a directory names every
// permanent child with the right kind, Stat of a permanent child succeeds, a/c keeps its bytes, Remove of a non-empty
// directory fails, operations that succeed (fail) in every sequential order succeed (fail), and the permanent children are
// all there at the end.
func TestDirStorm(t *testing.T) {
	vf.Check(t, "dirstorm", func(rt *rapid.T, rec *vf.Rec) {
		p := genDirStorm(rt)
		rec.Step(p)
		rec.NonTrivial()
		if sig, msg := runDirStorm(p); sig != "" {
			rec.Failf(rt, sig, "%s", msg)
		}
	})
}

var dirStormSetup = []Op{
	{K: "mkdir", P: "a"},
	{K: "hopen", P: "a/b", Flag: os.O_RDWR | os.O_CREATE}, {K: "hwrite", Data: "b0"}, {K: "hclose"},
	{K: "hopen", P: "a/c", Flag: os.O_RDWR | os.O_CREATE}, {K: "hwrite", Data: "c0"}, {K: "hclose"},
	{K: "mkdir", P: "a/d"}, {K: "touch", P: "a/d/e"},
}

func genDirStorm(rt *rapid.T) Program {
	p := Program{Setup: dirStormSetup}
	nt := rapid.IntRange(2, 4).Draw(rt, "threads")
	mutators := []Op{
		{K: "chmod", P: "a/b"}, {K: "chmod", P: "a/b"}, {K: "chmod", P: "a/c"}, {K: "chmod", P: "a/d"}, {K: "chmod", P: "a/d/e"},
		{K: "hwrite", Data: "XY"}, {K: "htrunc", N: 1}, {K: "htrunc", N: 3}, {K: "touch", P: "a/b"}, {K: "touch", P: "a/d/e"},
		{K: "excl", P: "a/c"}, {K: "mkdir", P: "a/d"}, {K: "touch", P: "a/v"}, {K: "remove", P: "a/v"},
	}
	observers := []Op{
		{K: "readdir", P: "a"}, {K: "readdir", P: "a"}, {K: "readdir", P: "a"}, {K: "readdir", P: "a/d"}, {K: "readdir", P: "."},
		{K: "stat", P: "a/b"}, {K: "stat", P: "a/c"}, {K: "stat", P: "a/d"}, {K: "stat", P: "a/d/e"}, {K: "cat", P: "a/c"},
		{K: "remove", P: "a"}, {K: "remove", P: "a/d"},
	}
	for th := 0; th < nt; th++ {
		// thread 0 mutates, thread 1 observes, the others are drawn
		mut := th == 0 || (th > 1 && rapid.Bool().Draw(rt, "mutator"))
		var body []Op
		menu := observers
		if mut {
			menu = mutators
			body = append(body, Op{K: "hopen", P: "a/b", Flag: os.O_RDWR})
		} else {
			body = append(body, Op{K: "stat", P: "."})
		}
		n := rapid.IntRange(1, 4).Draw(rt, "nops")
		for i := 0; i < n; i++ {
			body = append(body, rapid.SampledFrom(menu).Draw(rt, "op"))
		}
		p.Threads = append(p.Threads, body)
	}
	return p
}

// dirStormVerdict judges one result: "" if some sequential order explains it.
func dirStormVerdict(o Op, r string) string {
	has := func(list string, name string) bool {
		for _, n := range strings.Fields(strings.TrimSuffix(strings.TrimPrefix(list, "ok:["), "]")) {
			if n == name {
				return true
			}
		}
		return false
	}
	need := func(names ...string) string {
		if !strings.HasPrefix(r, "ok:[") {
			return "listing-failed"
		}
		for _, n := range names {
			if !has(r, n) {
				return "listing-misses-entry"
			}
		}
		return ""
	}
	switch o.K {
	case "readdir":
		switch o.P {
		case "a":
			return need("b", "c", "d/")
		case "a/d":
			return need("e")
		case ".":
			return need("a/")
		}
	case "stat":
		want := "ok:file"
		if o.P == "a/d" || o.P == "." {
			want = "ok:dir"
		}
		if !strings.HasPrefix(r, want) {
			return "stat-of-permanent-entry"
		}
	case "cat":
		if r != "ok:c0" {
			return "contents-of-untouched-file"
		}
	case "remove":
		if o.P != "a/v" && !strings.HasPrefix(r, "err:") {
			return "removed-non-empty-directory"
		}
	case "chmod", "hwrite", "htrunc", "hopen":
		if !strings.HasPrefix(r, "ok") {
			return "error-result"
		}
	case "touch":
		if o.P != "a/v" && r != "ok" {
			return "error-result"
		}
	case "excl", "mkdir":
		if !strings.HasPrefix(r, "err:") {
			return "created-over-existing-entry"
		}
	}
	return ""
}

func runDirStorm(p Program) (string, string) {
	for rep := 0; rep < 3; rep++ {
		w := newPlainWorld(p)
		var wg sync.WaitGroup
		panics := make(chan string, 8)
		bad := make(chan [2]string, 8)
		start := make(chan struct{})
		for th := range p.Threads {
			th := th
			wg.Add(1)
			go func() {
				defer wg.Done()
				defer func() {
					if r := recover(); r != nil {
						panics <- fmt.Sprint(r)
					}
				}()
				_ = apply(w, th, p.Threads[th][0])
				<-start
				for iter := 0; iter < 300; iter++ {
					for _, o := range p.Threads[th][1:] {
						r := apply(w, th, o)
						if v := dirStormVerdict(o, r); v != "" {
							select {
							case bad <- [2]string{v, fmt.Sprintf("thread %d iteration %d: %v = %s", th, iter, o, r)}:
							default:
							}
							return
						}
					}
				}
			}()
		}
		close(start)
		done := make(chan struct{})
		go func() { wg.Wait(); close(done) }()
		select {
		case <-done:
		case <-time.After(vf.WatchdogDur()):
			return "C15 dirstorm:deadlock", fmt.Sprintf("program %v did not finish when run on real goroutines", p.Threads)
		}
		select {
		case m := <-panics:
			return "C15 dirstorm:panic", fmt.Sprintf("program %v: %s", p.Threads, m)
		default:
		}
		select {
		case m := <-bad:
			return "C15 dirstorm:" + m[0], fmt.Sprintf("program %v: %s -- a/b, a/c, a/d and a/d/e exist from before the first to after the last operation, so no sequential order of the operations gives this result", p.Threads, m[1])
		default:
		}
		snap := snapString(w.fs)
		for _, k := range []string{"a/b ", "a/c ", "a/d/ ", "a/d/e "} {
			if !strings.Contains(";"+snap, ";"+k) {
				return "C15 dirstorm:permanent-entry-lost", fmt.Sprintf("after program %v the tree is %s: %s is gone though nothing removes it", p.Threads, snap, k)
			}
		}
	}
	return "", ""
}
