package c15

import (
	"fmt"
	"os"
	"sort"
	"strings"
	"sync"
	"testing"

	"pgregory.net/rapid"

	"verifharness/internal/vf"
)

// ------------------------------------------------------------------ observers: one mutation watched by read-only threads
//
// Thread 0 issues exactly ONE mutating operation M; every other thread only observes (stat, readdir, cat). Because the
// observers change nothing, any outcome no sequential order produces is an intermediate state of M itself (or a torn read
// of one observer) made visible: this leg asks "is each operation one step for everybody else", independently of the
// check-then-act findings C15:ns:*, which need two mutators. The situation M meets is the set-up state (nothing else
// changes it), so a finding is identified exactly: operation kind, what its paths hold, which observer kinds watch.

var obsSetups = [][]Op{
	nil,
	{{K: "mkdir", P: "a"}},
	{{K: "mkdir", P: "a"}, {K: "hopen", P: "a/b", Flag: os.O_RDWR | os.O_CREATE}, {K: "hwrite", Data: "xy"}, {K: "hclose"}},
	{{K: "hopen", P: "b", Flag: os.O_RDWR | os.O_CREATE}, {K: "hwrite", Data: "b0"}, {K: "hclose"}, {K: "mkdir", P: "a"}, {K: "mkdir", P: "a/c"}},
	{{K: "hopen", P: "a", Flag: os.O_RDWR | os.O_CREATE}, {K: "hwrite", Data: "a0"}, {K: "hclose"}},
	{{K: "mkdir", P: "a"}, {K: "mkdir", P: "a/c"}, {K: "hopen", P: "a/c/d", Flag: os.O_RDWR | os.O_CREATE}, {K: "hwrite", Data: "d0"}, {K: "hclose"},
		{K: "hopen", P: "a/b", Flag: os.O_RDWR | os.O_CREATE}, {K: "hwrite", Data: "xy"}, {K: "hclose"}},
}

var obsPaths = []string{".", "a", "b", "a/b", "a/c"}
var mutPaths = []string{"a", "b", "a/b", "a/c", "b/c", "b/c/d"}
var obsKinds = []string{"stat", "readdir", "cat"}

// kindOf: what p holds in the set-up state: "-" missing, "f" file, "d" empty directory, "D" non-empty directory,
// "x" not reachable (an ancestor is missing or a file).
func kindOf(w *world, p string) string {
	r := apply(w, len(w.handles)-1, Op{K: "stat", P: p})
	switch {
	case r == "ok:dir":
		if apply(w, len(w.handles)-1, Op{K: "readdir", P: p}) == "ok:[]" {
			return "d"
		}
		return "D"
	case strings.HasPrefix(r, "ok:file"):
		return "f"
	}
	if par := parent(p); par != "." {
		if k := kindOf(w, par); k != "d" && k != "D" {
			return "x"
		}
	}
	return "-"
}

// situation of the mutator in the set-up state, e.g. "rename(D,-)", "mkdirall(x)", "hopen:trunc(f)".
func situation(p Program) string {
	m := p.Threads[0][0]
	w := newPlainWorld(p)
	name := m.K
	if m.K == "hopen" {
		switch {
		case m.Flag&os.O_TRUNC != 0:
			name += ":trunc"
		case m.Flag&os.O_CREATE != 0:
			name += ":create"
		}
	}
	if m.K == "rename" {
		return fmt.Sprintf("%s(%s,%s)", name, kindOf(w, m.P), kindOf(w, m.P2))
	}
	return fmt.Sprintf("%s(%s)", name, kindOf(w, m.P))
}

// observerKinds: "readdir" if a listing is among the observations (a listing is itself several store transactions:
// names first, then every entry), else "plain" (stat, cat).
func observerKinds(p Program) string {
	for _, th := range p.Threads[1:] {
		for _, o := range th {
			if o.K == "readdir" {
				return "readdir"
			}
		}
	}
	return "plain"
}

// obsClass identifies a finding of this leg.
func obsClass(p Program) string { return "C15:obs:" + situation(p) + "/" + observerKinds(p) }

func mutatorCandidates() []Op {
	var out []Op
	for _, p := range mutPaths {
		for _, k := range []string{"mkdir", "mkdirall", "touch", "excl", "remove", "chmod"} {
			out = append(out, Op{K: k, P: p})
		}
		for _, f := range []int{os.O_RDWR | os.O_CREATE, os.O_RDWR | os.O_TRUNC} {
			out = append(out, Op{K: "hopen", P: p, Flag: f})
		}
		for _, q := range mutPaths {
			out = append(out, Op{K: "rename", P: p, P2: q})
		}
	}
	return out
}

func observerCandidates() []Op {
	var out []Op
	for _, p := range obsPaths {
		for _, k := range obsKinds {
			out = append(out, Op{K: k, P: p})
		}
	}
	return out
}

func checkObserved(p Program, maxPre int, count *int) (string, string, []int) {
	sig, msg, trace := dfs(p, maxPre, sequentialOutcomes(p), count)
	if sig == "" {
		return "", "", nil
	}
	kind := strings.Fields(strings.SplitN(sig, ":", 2)[0])[1] // "C15 not-serializable:..." -> not-serializable
	return "C15 " + kind + " " + obsClass(p), msg, trace
}

// obsProbe: is there still a program of the given class with a visible intermediate state? (bounded enumeration)
func obsProbe(sig string) (bool, string) {
	rest := strings.TrimPrefix(sig, "C15:obs:")
	i := strings.LastIndex(rest, "/")
	wantSit := rest[:i]
	obs := observerCandidates()
	for _, setup := range obsSetups {
		for _, m := range mutatorCandidates() {
			base := Program{Setup: setup, Threads: [][]Op{{m}, nil}}
			if situation(base) != wantSit {
				continue
			}
			for _, o1 := range obs {
				for _, o2 := range obs {
					p := Program{Setup: setup, Threads: [][]Op{{m}, {o1, o2}}}
					if obsClass(p) != sig {
						continue
					}
					n := 0
					if s, msg, _ := checkObserved(p, 2, &n); s != "" {
						msg = strings.ReplaceAll(msg, "\n", " ")
						if len(msg) > 300 {
							msg = msg[:300] + "..."
						}
						return true, msg
					}
				}
			}
		}
	}
	return false, "no visible intermediate state found for the programs of this class"
}

func genObserverProgram(rt *rapid.T, rec *vf.Rec) Program {
	p := Program{Setup: rapid.SampledFrom(obsSetups).Draw(rt, "setup")}
	// 1. do listings observe? 2. the mutator, from the candidates whose class is not a listed, still reproducing finding
	// (construction, not rejection). 3. the observations, mostly aimed at the mutator's own paths and their parents.
	withReaddir := rapid.Bool().Draw(rt, "with-readdir")
	marker := Op{K: "stat", P: "."}
	if withReaddir {
		marker = Op{K: "readdir", P: "."}
	}
	var cands []Op
	excluded := 0
	for _, m := range mutatorCandidates() {
		q := Program{Setup: p.Setup, Threads: [][]Op{{m}, {marker}}}
		if vf.Known(obsClass(q)) {
			excluded++
			continue
		}
		cands = append(cands, m)
	}
	if excluded > 0 {
		rec.Excluded("C15:obs:known-classes")
	}
	// mostly a mutator that takes effect in the set-up state (a failing one has no intermediate state to show),
	// drawn by situation first so that rare situations are as likely as common ones
	bySit := map[string][]Op{}
	var sits []string
	for _, m := range cands {
		q := Program{Setup: p.Setup, Threads: [][]Op{{m}}}
		w := newPlainWorld(q)
		if apply(w, 0, m) != "ok" {
			continue
		}
		sit := situation(q)
		if bySit[sit] == nil {
			sits = append(sits, sit)
		}
		bySit[sit] = append(bySit[sit], m)
	}
	var m Op
	if len(sits) > 0 && rapid.IntRange(0, 9).Draw(rt, "effective") < 8 {
		m = rapid.SampledFrom(bySit[rapid.SampledFrom(sits).Draw(rt, "situation")]).Draw(rt, "mutator")
	} else {
		m = rapid.SampledFrom(cands).Draw(rt, "mutator")
	}
	near := []string{m.P}
	if m.K == "rename" {
		near = append(near, m.P2)
	}
	if withReaddir {
		// a listing observes a path through its parent
		for _, q := range append([]string{}, near...) {
			near = append(near, parent(q))
		}
	}
	kinds := []string{"stat", "stat", "cat"}
	if withReaddir {
		kinds = []string{"stat", "readdir", "readdir", "cat"}
	}
	nobs := rapid.IntRange(1, 2).Draw(rt, "observers")
	threads := [][]Op{{m}}
	hasReaddir := false
	for t := 0; t < nobs; t++ {
		n := rapid.IntRange(1, 3).Draw(rt, "nobs")
		if nobs == 1 && n == 1 {
			n = 2
		}
		var th []Op
		for i := 0; i < n; i++ {
			o := Op{K: rapid.SampledFrom(kinds).Draw(rt, "ok")}
			if rapid.IntRange(0, 9).Draw(rt, "near") < 7 {
				o.P = rapid.SampledFrom(near).Draw(rt, "np")
			} else {
				o.P = rapid.SampledFrom(obsPaths).Draw(rt, "op")
			}
			hasReaddir = hasReaddir || o.K == "readdir"
			th = append(th, o)
		}
		threads = append(threads, th)
	}
	if withReaddir && !hasReaddir {
		threads[1][0].K = "readdir"
	}
	p.Threads = threads
	return p
}

// TestObservers: rapid-drawn (set-up, mutator, observers); EVERY schedule with <= 2 pre-emptions per program.
func TestObservers(t *testing.T) {
	vf.Check(t, "observers", func(rt *rapid.T, rec *vf.Rec) {
		p := genObserverProgram(rt, rec)
		rec.Step(p)
		sit := situation(p)
		rec.Class("mutator:" + sit)
		if !strings.Contains(sit, "(x") && !strings.Contains(sit, "(-)") {
			rec.NonTrivial()
		} else if strings.HasPrefix(sit, "mk") || strings.HasPrefix(sit, "touch") || strings.HasPrefix(sit, "excl") || strings.HasPrefix(sit, "hopen:create") {
			rec.NonTrivial()
		}
		n := 0
		sig, msg, trace := checkObserved(p, 2, &n)
		rec.Count("schedules", n)
		if sig != "" {
			rec.Step(Case{Program: p, Choices: trace})
			rec.Failf(rt, sig, "%s", msg)
		}
	})
}

// canonicalObserverPrograms: for every set-up and every mutator that takes effect there, the observation pairs aimed at
// its own paths in both orders (stat X then stat Y; list X's parent then Y's parent), minus the listed known classes.
// Finite and small, so the quick tier walks all of it: the "seen under both names / under neither" patterns do not
// depend on a lucky draw.
func canonicalObserverPrograms() (progs []Program, excluded int) {
	for _, setup := range obsSetups {
		for _, m := range mutatorCandidates() {
			q := Program{Setup: setup, Threads: [][]Op{{m}}}
			if apply(newPlainWorld(q), 0, m) != "ok" {
				continue
			}
			own := []string{m.P}
			if m.K == "rename" && m.P2 != m.P {
				own = append(own, m.P2)
			}
			var obs [][]Op
			for _, x := range own {
				for _, y := range own {
					if x != y {
						obs = append(obs, []Op{{K: "stat", P: x}, {K: "stat", P: y}}, []Op{{K: "cat", P: x}, {K: "cat", P: y}})
					}
					obs = append(obs, []Op{{K: "readdir", P: parent(x)}, {K: "readdir", P: parent(y)}})
				}
				if par := parent(x); par != "." {
					obs = append(obs, []Op{{K: "stat", P: par}, {K: "stat", P: x}}, []Op{{K: "stat", P: x}, {K: "stat", P: par}})
				}
			}
			for _, o := range obs {
				p := Program{Setup: setup, Threads: [][]Op{{m}, o}}
				if vf.Known(obsClass(p)) {
					excluded++
					continue
				}
				progs = append(progs, p)
			}
		}
	}
	return
}

func TestObserversCanonical(t *testing.T) {
	progs, excluded := canonicalObserverPrograms()
	type result struct {
		sig, msg string
		trace    []int
		n        int
	}
	results := make([]result, len(progs))
	var wg sync.WaitGroup
	work := make(chan int)
	for w := 0; w < 16; w++ {
		wg.Add(1)
		go func() {
			defer wg.Done()
			for i := range work {
				r := &results[i]
				r.sig, r.msg, r.trace = checkObserved(progs[i], 2, &r.n)
			}
		}()
	}
	for i := range progs {
		work <- i
	}
	close(work)
	wg.Wait()
	vf.Each(t, "observers-canon", len(progs), true, func(i int, t *testing.T, rec *vf.Rec) {
		p, r := progs[i], results[i]
		if i == 0 && excluded > 0 {
			rec.Count("excluded-known-class-programs", excluded)
			rec.Excluded("C15:obs:known-classes")
		}
		rec.Step(p)
		rec.Class("mutator:" + situation(p))
		rec.NonTrivial()
		rec.Count("schedules", r.n)
		if r.sig != "" {
			rec.Step(Case{Program: p, Choices: r.trace})
			rec.Failf(t, r.sig, "%s", r.msg)
		}
	})
}

// TestEnumerateObservers (development aid, VERIF_ENUMERATE=1): every (set-up, mutator, <=2 observations by one thread)
// program, every schedule with <= 2 pre-emptions; prints the classes with a visible intermediate state.
func TestEnumerateObservers(t *testing.T) {
	if os.Getenv("VERIF_ENUMERATE") == "" {
		t.Skip("development aid")
	}
	bad := map[string]string{}
	clean := map[string]bool{}
	progs, scheds := 0, 0
	obs := observerCandidates()
	for _, setup := range obsSetups {
		for _, m := range mutatorCandidates() {
			for _, o1 := range obs {
				for _, o2 := range obs {
					p := Program{Setup: setup, Threads: [][]Op{{m}, {o1, o2}}}
					cls := obsClass(p)
					if bad[cls] != "" {
						continue
					}
					progs++
					if s, msg, _ := checkObserved(p, 2, &scheds); s != "" {
						bad[cls] = strings.ReplaceAll(msg, "\n", " ")
						delete(clean, cls)
					} else {
						clean[cls] = true
					}
				}
			}
		}
	}
	var ks []string
	for k := range bad {
		ks = append(ks, k)
	}
	sort.Strings(ks)
	for _, k := range ks {
		m := bad[k]
		if len(m) > 330 {
			m = m[:330]
		}
		fmt.Printf("ANOMALY %s :: %s\n", k, m)
	}
	fmt.Printf("programs=%d schedules=%d anomalous-classes=%d clean-classes=%d\n", progs, scheds, len(bad), len(clean))
}
