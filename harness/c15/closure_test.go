package c15

import (
	"encoding/json"
	"fmt"
	"os"
	"sort"
	"strings"
	"sync"
	"testing"
)

// singleOps: every single-operation instance over the path set (handle operations need a preceding hopen and are added
// as second operations of a thread).
func singleOps() []Op {
	var out []Op
	for _, p := range paths {
		for _, k := range []string{"mkdir", "mkdirall", "touch", "excl", "remove", "stat", "chmod"} {
			out = append(out, Op{K: k, P: p})
		}
		for _, f := range []int{os.O_RDWR, os.O_RDWR | os.O_CREATE, os.O_WRONLY | os.O_APPEND, os.O_RDWR | os.O_APPEND | os.O_CREATE, os.O_RDWR | os.O_TRUNC} {
			out = append(out, Op{K: "hopen", P: p, Flag: f})
		}
		for _, q := range paths {
			out = append(out, Op{K: "rename", P: p, P2: q})
		}
	}
	return out
}

func twoOpThreads() [][]Op {
	var out [][]Op
	s := singleOps()
	for _, x := range s {
		for _, y := range s {
			out = append(out, []Op{x, y})
		}
		if x.K == "hopen" {
			out = append(out, []Op{x, {K: "hwrite", Data: "Q"}}, []Op{x, {K: "hread"}}, []Op{x, {K: "htrunc", N: 1}})
		}
	}
	return out
}

func programHasListed(p Program, listed map[string]bool) bool {
	for a := 0; a < len(p.Threads); a++ {
		for b := a + 1; b < len(p.Threads); b++ {
			for i := range p.Threads[a] {
				for j := range p.Threads[b] {
					c := pairClass(p.Threads[a], i, p.Threads[b], j)
					if conflicting(c, p.Threads[a][i], p.Threads[b][j]) && listed[c] {
						return true
					}
				}
			}
		}
	}
	return false
}

// TestClosure (development aid, VERIF_ENUMERATE=1): every program (one operation) || (two operations) over every set-up,
// every schedule with <= 2 pre-emptions, skipping programs that contain a pair of an already listed class; each anomaly found
// lists the class of its first conflicting pair (with the program + schedule as witness). Writes the extended witness file
// to VERIF_C15_WITNESS_OUT.
func TestClosure(t *testing.T) {
	if os.Getenv("VERIF_ENUMERATE") == "" {
		t.Skip("development aid")
	}
	listed := map[string]bool{}
	wit := map[string]Case{}
	for k, v := range witnesses() {
		listed[k] = true
		wit[k] = v
	}
	var mu sync.Mutex
	singles := singleOps()
	twos := twoOpThreads()
	type job struct {
		setup []Op
		a, b  []Op
	}
	jobs := make(chan job, 256)
	var wg sync.WaitGroup
	progs, scheds := 0, 0
	var added []string
	for w := 0; w < 16; w++ {
		wg.Add(1)
		go func() {
			defer wg.Done()
			for j := range jobs {
				p := Program{Setup: j.setup, Threads: [][]Op{j.a, j.b}}
				mu.Lock()
				skip := programHasListed(p, listed)
				mu.Unlock()
				if skip {
					continue
				}
				n := 0
				sig, _, trace := dfs(p, 2, sequentialOutcomes(p), &n)
				mu.Lock()
				progs++
				scheds += n
				if sig != "" && !programHasListed(p, listed) {
					cls := firstConflictClass(p)
					if cls != "none" {
						listed[cls] = true
						wit[cls] = Case{Program: p, Choices: trace}
						added = append(added, cls+" :: "+sig+" :: "+fmt.Sprint(p.Setup, p.Threads))
					} else {
						added = append(added, "NO-CONFLICT-CLASS :: "+sig+" :: "+fmt.Sprint(p.Setup, p.Threads))
					}
				}
				mu.Unlock()
			}
		}()
	}
	for _, setup := range setups {
		for _, x := range singles {
			for _, b := range twos {
				jobs <- job{setup, []Op{x}, b}
			}
		}
	}
	close(jobs)
	wg.Wait()
	sort.Strings(added)
	for _, a := range added {
		if len(a) > 300 {
			a = a[:300]
		}
		fmt.Println("ADDED", strings.ReplaceAll(a, "\n", " "))
	}
	fmt.Printf("programs=%d schedules=%d listed=%d added=%d\n", progs, scheds, len(listed), len(added))
	if out := os.Getenv("VERIF_C15_WITNESS_OUT"); out != "" {
		b, _ := json.MarshalIndent(wit, "", " ")
		_ = os.WriteFile(out, b, 0o644)
	}
}
