// C05: failures are typed, sentinel-matchable and name the caller's path.
package c05

import (
	"archive/tar"
	"bytes"
	"context"
	"encoding/json"
	"errors"
	"fmt"
	"io/fs"
	"os"
	"sort"
	"strings"
	"testing"
	"time"

	"github.com/hack-pad/hackpadfs"
	"github.com/hack-pad/hackpadfs/cache"
	htar "github.com/hack-pad/hackpadfs/tar"
	"pgregory.net/rapid"

	"verifharness/internal/gen"
	"verifharness/internal/ops"
	"verifharness/internal/sit"
	"verifharness/internal/subj"
	"verifharness/internal/vf"
	"verifharness/internal/world"
)

func TestMain(m *testing.M) {
	world.Init()
	registerProbes()
	vf.Main(m, world.Cleanup)
}

var sentinels = []struct {
	name string
	err  error
}{
	{"NotExist", hackpadfs.ErrNotExist}, {"Exist", hackpadfs.ErrExist}, {"IsDir", hackpadfs.ErrIsDir}, {"NotDir", hackpadfs.ErrNotDir},
	{"NotEmpty", hackpadfs.ErrNotEmpty}, {"Invalid", hackpadfs.ErrInvalid}, {"Closed", hackpadfs.ErrClosed},
}

func relativise(root, p string) string {
	if p == root {
		return "."
	}
	return strings.TrimPrefix(p, root+"/")
}

// CompareErr checks the library error of a failing FS-level op against the os error for the same call.
func CompareErr(op ops.Op, root string, osErr, libErr error) (what, msg string) {
	two := op.K == "rename" || op.K == "symlink"
	var wantPaths []string
	var osPE *fs.PathError
	var osLE *os.LinkError
	switch {
	case errors.As(osErr, &osLE):
		wantPaths = []string{relativise(root, osLE.Old), relativise(root, osLE.New)}
	case errors.As(osErr, &osPE):
		wantPaths = []string{relativise(root, osPE.Path)}
	}
	if two {
		le, ok := libErr.(*hackpadfs.LinkError)
		if !ok {
			return "type", fmt.Sprintf("error of %v is %T (%v), want *hackpadfs.LinkError; os: %v", op, libErr, libErr, osErr)
		}
		if len(wantPaths) != 2 {
			wantPaths = []string{op.P, op.P2}
		}
		if le.Old != wantPaths[0] || le.New != wantPaths[1] {
			return "path", fmt.Sprintf("error of %v names Old=%q New=%q, os names %q %q (%v)", op, le.Old, le.New, wantPaths[0], wantPaths[1], libErr)
		}
	} else {
		pe, ok := libErr.(*hackpadfs.PathError)
		if !ok {
			return "type", fmt.Sprintf("error of %v is %T (%v), want *hackpadfs.PathError; os: %v", op, libErr, libErr, osErr)
		}
		if len(wantPaths) != 1 {
			wantPaths = []string{op.P}
		}
		if op.K == "removeall" && pe.Path == op.P {
			// which ancestor os.RemoveAll names for a path through a regular file is an artefact of its openat/unlinkat
			// strategy ("b/a" for RemoveAll("b/a/a")); the name passed in is accepted as well.
		} else if pe.Path != wantPaths[0] {
			return "path", fmt.Sprintf("error of %v names %q, os names %q (%v)", op, pe.Path, wantPaths[0], libErr)
		}
	}
	if errors.Is(libErr, hackpadfs.ErrNotImplemented) {
		// the file system does not support the operation at all: typed + caller's path is all that can be asked
		return "", ""
	}
	for _, s := range sentinels {
		if errors.Is(osErr, s.err) && !errors.Is(libErr, s.err) {
			return "sentinel-" + s.name, fmt.Sprintf("os error of %v matches Err%s (%v) but the library error does not (%v)", op, s.name, osErr, libErr)
		}
	}
	return "", ""
}

// invalidSpellings are names fs.ValidPath rejects (C04 decides THAT they are rejected; here: what the error names).
var invalidSpellings = []string{"", "/a", "a/", "a//b", "./a", "a/./b", "../a", "a/../b", "/"}

// invalidStep: an operation one of whose names is invalid. There is no os twin for it (the os package has other rules for
// names); the property's own words decide: the error is a *PathError / *LinkError whose path fields are the names the
// caller passed -- not an inner or OS path, not an empty string unless the caller passed one.
func (m *machine) invalidStep(op ops.Op) (string, string) {
	sr := ops.ApplyFS(m.s.FS, op)
	base := fmt.Sprintf("C05/%s %s:invalid-name", m.s.Kind, op.K)
	if sr.Hung || sr.Panic != "" {
		return base + ":crash", fmt.Sprintf("%v: %v", op, sr)
	}
	if sr.OK() {
		m.diverged = true // accepted: C04's subject; the two worlds no longer correspond
		return "", ""
	}
	if sr.Stage == "write:" || sr.Stage == "close:" {
		return "", ""
	}
	m.nontrivial = true
	if op.K == "rename" || op.K == "symlink" {
		le, ok := sr.Err.(*hackpadfs.LinkError)
		if !ok {
			return base + ":type", fmt.Sprintf("error of %v is %T (%v), want *hackpadfs.LinkError", op, sr.Err, sr.Err)
		}
		if le.Old != op.P || le.New != op.P2 {
			return base + ":path", fmt.Sprintf("error of %v names Old=%q New=%q, the caller passed %q %q (%v)", op, le.Old, le.New, op.P, op.P2, sr.Err)
		}
		return "", ""
	}
	pe, ok := sr.Err.(*hackpadfs.PathError)
	if !ok {
		return base + ":type", fmt.Sprintf("error of %v is %T (%v), want *hackpadfs.PathError", op, sr.Err, sr.Err)
	}
	if pe.Path != op.P {
		return base + ":path", fmt.Sprintf("error of %v names %q, the caller passed %q (%v)", op, pe.Path, op.P, sr.Err)
	}
	return "", ""
}

type machine struct {
	s          *subj.Subject
	ref        *world.World
	nontrivial bool
	diverged   bool
	layers     int
}

func layersOf(kind string) int {
	switch kind {
	case "mem", "kvplain", "mount0", "minimal":
		return 0
	case "mountstack":
		return 2
	case "mount2", "subsub", "ossub2", "submountpt":
		return 2
	case "ossub3":
		return 3
	}
	return 1
}

func newMachine(kind string) *machine {
	m := &machine{s: subj.New(kind), ref: world.New(), layers: layersOf(kind)}
	for _, d := range m.s.Pre {
		if err := os.MkdirAll(m.ref.Root+"/"+d, 0o755); err != nil {
			panic(err)
		}
	}
	return m
}

func (m *machine) close() { m.s.Close(); m.ref.Close() }

// skipOp: operations whose meaning legitimately differs between a mount composition and one os tree.
func (m *machine) skipOp(op ops.Op) bool {
	if len(m.s.MountPoints) == 0 {
		return false
	}
	switch op.K {
	case "remove", "removeall":
		return m.s.IsMountPoint(op.P) || m.s.AboveMountPoint(op.P)
	case "rename":
		for _, p := range []string{op.P, op.P2} {
			if m.s.IsMountPoint(p) || m.s.AboveMountPoint(p) {
				return true
			}
		}
		return m.s.MountOf(op.P) != m.s.MountOf(op.P2)
	}
	return false
}

func (m *machine) step(op ops.Op, situation string) (string, string) {
	if m.diverged {
		return "", ""
	}
	rr := ops.ApplyOS(m.ref.Root, op)
	sr := ops.ApplyFS(m.s.FS, op)
	base := fmt.Sprintf("C05/%s %s", m.s.Kind, situation)
	if sr.Hung || sr.Panic != "" {
		return base + ":crash", fmt.Sprintf("%v: %v", op, sr)
	}
	if rr.OK() != sr.OK() {
		// success divergence is C01/C06/C07's subject, not this property's; the case cannot continue
		m.diverged = true
		if op.K == "rename" && rr.OK() && errors.Is(sr.Err, hackpadfs.ErrNotImplemented) && strings.Contains(situation, "->missing:") {
			// unsupported on this layer (generic Sub view): undo the reference's rename and carry on
			if os.Rename(ops.OSPath(m.ref.Root, op.P2), ops.OSPath(m.ref.Root, op.P)) == nil {
				m.diverged = false
			}
		}
		if !sr.OK() && errors.Is(sr.Err, hackpadfs.ErrNotImplemented) {
			// unsupported operation: must still be typed and name the caller's path
			if what, msg := CompareErr(op, m.ref.Root, nil, sr.Err); what == "type" || what == "path" {
				return base + ":notimpl-" + what, msg
			}
		}
		if op.K == "rename" && op.P == op.P2 {
			m.diverged = false // nothing changed on either side
		}
		return "", ""
	}
	if rr.OK() || rr.Stage == "write:" || rr.Stage == "close:" || sr.Stage == "write:" || sr.Stage == "close:" {
		return "", ""
	}
	if m.layers >= 1 && gen.Depth(op.P) >= 2 {
		m.nontrivial = true
	}
	if (op.K == "mkdirall" || op.K == "removeall") && gen.Depth(op.P) >= 2 {
		m.nontrivial = true
	}
	if m.layers == 0 && gen.Depth(op.P) >= 2 {
		m.nontrivial = true
	}
	if what, msg := CompareErr(op, m.ref.Root, rr.Err, sr.Err); what != "" {
		return base + ":" + what, msg
	}
	return "", ""
}

func run(t *testing.T, kind string) {
	vf.Check(t, kind, func(rt *rapid.T, rec *vf.Rec) {
		m := newMachine(kind)
		defer m.close()
		names := gen.Alphabet(rt)
		if names[1] != "ab" {
			rec.Class("exotic-alphabet")
		}
		// in a quarter of the cases on Sub views of an in-memory FS the view's ROOT may be removed / renamed / re-created
		// (as a regular file, too): error paths then have to name "." and names below it, never the inner base directory
		rootMut := (kind == "submem" || kind == "subsub") && rapid.IntRange(0, 3).Draw(rt, "rootmut") == 0
		if rootMut {
			rec.Class("root-mutations")
		}
		rt.Repeat(map[string]func(*rapid.T){
			"step": func(rt *rapid.T) {
				if m.diverged {
					return // the case has ended; remaining drawn steps are ignored
				}
				snap := ops.SnapOS(m.ref.Root)
				tree := gen.TreeOf(snap)
				if len(tree.Dirs) == 0 {
					tree.Dirs = []string{"."} // the root itself is gone or a file: names are still drawn below it
				}
				op := gen.Op(rt, tree, names, 3, rootMut)
				if rootMut && rapid.IntRange(0, 5).Draw(rt, "atroot") == 0 {
					op = ops.Op{K: rapid.SampledFrom([]string{"remove", "writefile", "mkdir", "removeall"}).Draw(rt, "rootop"), P: ".", Perm: 0o755, Data: []byte("r")}
				}
				if !m.diverged && rapid.IntRange(0, 7).Draw(rt, "invalidname") == 0 {
					// one of the names is not a valid FS path
					bad := rapid.SampledFrom(invalidSpellings).Draw(rt, "spelling")
					k := rapid.SampledFrom([]string{"rename", "rename", "rename", "symlink", "mkdir", "mkdirall", "stat", "remove", "removeall", "openfile", "chmod", "chtimes", "readdir", "readfile", "writefile", "lstatorstat"}).Draw(rt, "invalid.k")
					iop := ops.Op{K: k, P: bad, Perm: 0o755, Flag: os.O_RDWR | os.O_CREATE, Sec: 1_500_000_000, Data: []byte("x")}
					if k == "rename" || k == "symlink" {
						other := gen.Random(rt, names, 2, false, "invalid.other")
						switch rapid.IntRange(0, 2).Draw(rt, "invalid.which") {
						case 0:
							iop.P, iop.P2 = bad, other
						case 1:
							iop.P, iop.P2 = other, bad
						default:
							iop.P, iop.P2 = bad, rapid.SampledFrom(invalidSpellings).Draw(rt, "spelling2")
						}
					}
					rec.Step(iop)
					rec.Class("invalid-name:" + k)
					if sig, msg := m.invalidStep(iop); sig != "" {
						rec.Failf(rt, sig, "%s", msg)
					}
					return
				}
				if m.skipOp(op) {
					rt.Skip("mount-boundary operation")
				}
				s := sit.Of(op, tree)
				if k := knownSig(kind, op, s); k != "" {
					rec.Excluded(k)
					rt.Skip("known finding " + k)
				}
				if op.K == "readfile" && !strings.HasPrefix(kind, "os") && (s == "readfile:root" || strings.HasPrefix(s, "readfile:dir")) {
					rt.Skip("ReadFile of a directory succeeds on mem (known finding C01:readfile-directory): would only end the case")
				}
				rec.Step(op)
				sig, msg := m.step(op, s)
				if m.diverged {
					rec.Class("diverged-at:" + s)
				}
				if sig != "" {
					rec.Failf(rt, sig, "%s", msg)
				}
			},
			"": func(rt *rapid.T) {},
		})
		if m.diverged {
			rec.Class("ended-by-success-divergence")
		}
		if m.nontrivial {
			rec.NonTrivial()
		}
	})
}

var kinds = []string{"minimal", "mem", "kvplain", "osfs", "ossub2", "ossub3", "mount0", "mount1", "mount2", "mountstack", "submem", "subsub", "submountpt"}

func TestMem(t *testing.T)        { run(t, "mem") }
func TestMinimal(t *testing.T)    { run(t, "minimal") }
func TestKVPlain(t *testing.T)    { run(t, "kvplain") }
func TestOSFS(t *testing.T)       { run(t, "osfs") }
func TestOSSub2(t *testing.T)     { run(t, "ossub2") }
func TestOSSub3(t *testing.T)     { run(t, "ossub3") }
func TestMount0(t *testing.T)     { run(t, "mount0") }
func TestMount1(t *testing.T)     { run(t, "mount1") }
func TestMount2(t *testing.T)     { run(t, "mount2") }
func TestMountStack(t *testing.T) { run(t, "mountstack") }
func TestSubMem(t *testing.T)     { run(t, "submem") }
func TestSubSub(t *testing.T)     { run(t, "subsub") }
func TestSubMountPt(t *testing.T) { run(t, "submountpt") }

// ------------------------------------------------------------------ read-only layers: cache and tar

// ROCase: a source tree (setup ops), then probes through the read-only layer.
type ROCase struct {
	Layer  string   `json:"layer"` // cache, tar
	Setup  []ops.Op `json:"setup"`
	Probes []ops.Op `json:"probes"`
}

func buildRO(c ROCase, ref *world.World) hackpadfs.FS {
	src := subj.NewMem()
	for _, op := range c.Setup {
		_ = ops.ApplyFS(src, op)
		_ = ops.ApplyOS(ref.Root, op)
	}
	if c.Layer == "cache" {
		cfs, err := cache.NewReadOnlyFS(src, subj.NewMem(), cache.ReadOnlyOptions{})
		if err != nil {
			panic(err)
		}
		return cfs
	}
	snap, _ := ops.SnapFS(src)
	var names []string
	for p := range snap {
		if p != "." {
			names = append(names, p)
		}
	}
	sort.Strings(names)
	var buf bytes.Buffer
	tw := tar.NewWriter(&buf)
	for _, p := range names {
		n := snap[p]
		var err error
		if n.Kind == 'd' {
			err = tw.WriteHeader(&tar.Header{Name: p + "/", Typeflag: tar.TypeDir, Mode: int64(n.Perm)})
		} else {
			err = tw.WriteHeader(&tar.Header{Name: p, Typeflag: tar.TypeReg, Mode: int64(n.Perm), Size: int64(len(n.Data))})
			if err == nil {
				_, err = tw.Write([]byte(n.Data))
			}
		}
		if err != nil {
			panic(err)
		}
	}
	if err := tw.Close(); err != nil {
		panic(err)
	}
	tfs, err := htar.NewReaderFS(context.Background(), &buf, htar.ReaderFSOptions{})
	if err != nil {
		panic(err)
	}
	select {
	case <-tfs.Done():
	case <-time.After(vf.WatchdogDur()):
		panic("tar unpack did not finish")
	}
	return tfs
}

func checkRO(c ROCase) (string, string, bool) {
	ref := world.New()
	defer ref.Close()
	fsys := buildRO(c, ref)
	nontrivial := false
	for _, op := range c.Probes {
		base := fmt.Sprintf("C05/%s %s", c.Layer, op.K)
		sr := ops.ApplyFS(fsys, op)
		if sr.Hung || sr.Panic != "" {
			return base + ":crash", fmt.Sprintf("%v: %v", op, sr), nontrivial
		}
		switch op.K {
		case "stat", "open", "readdir", "readfile":
			rr := ops.ApplyOS(ref.Root, op)
			if rr.OK() || sr.OK() {
				continue // success divergence (e.g. ReadFile of a directory) is not this property's subject
			}
			if gen.Depth(op.P) >= 2 {
				nontrivial = true
			}
			if what, msg := CompareErr(op, ref.Root, rr.Err, sr.Err); what != "" {
				return base + ":" + what, msg, nontrivial
			}
		default:
			// Whether a mutation reaches the layer's own copy (Chmod through the cached handle succeeds) is not this
			// property's subject; a failing one must be typed and name the caller's path, whatever the reason
			// (unsupported -> ErrNotImplemented, or the open inside the helper failing).
			if sr.OK() {
				continue
			}
			if errors.Is(sr.Err, hackpadfs.ErrNotImplemented) {
				nontrivial = true
			}
			if what, msg := CompareErr(op, ref.Root, nil, sr.Err); what == "type" || what == "path" {
				return base + ":mut-" + what, msg, nontrivial
			}
		}
	}
	return "", "", nontrivial
}

func genRO(rt *rapid.T, layer string) ROCase {
	c := ROCase{Layer: layer}
	scratch := subj.NewMem()
	n := rapid.IntRange(0, 6).Draw(rt, "nsetup")
	for i := 0; i < n; i++ {
		snap, _ := ops.SnapFS(scratch)
		tr := gen.TreeOf(snap)
		k := rapid.SampledFrom([]string{"mkdir", "mkdirall", "writefile", "writefile"}).Draw(rt, "skind")
		op := ops.Op{K: k, P: gen.Path(rt, tr, gen.Names, 3, false, "sp"), Perm: 0o755}
		if k == "writefile" {
			op.Perm = 0o644
			op.Data = gen.Payload(rt, 8, "sdata")
		}
		_ = ops.ApplyFS(scratch, op)
		c.Setup = append(c.Setup, op)
	}
	snap, _ := ops.SnapFS(scratch)
	tr := gen.TreeOf(snap)
	np := rapid.IntRange(1, 8).Draw(rt, "nprobes")
	for i := 0; i < np; i++ {
		k := rapid.SampledFrom([]string{"stat", "stat", "open", "readdir", "readfile", "mkdir", "remove", "rename", "chmod", "writefile", "openfile"}).Draw(rt, "pk")
		op := ops.Op{K: k, P: gen.Path(rt, tr, gen.Names, 3, true, "pp"), Perm: 0o644}
		switch k {
		case "rename":
			op.P2 = gen.Path(rt, tr, gen.Names, 3, true, "pp2")
		case "writefile":
			op.Data = []byte("x")
		case "openfile":
			op.Flag = os.O_WRONLY | os.O_CREATE
		}
		c.Probes = append(c.Probes, op)
	}
	return c
}

func runRO(t *testing.T, layer string) {
	vf.Check(t, layer, func(rt *rapid.T, rec *vf.Rec) {
		c := genRO(rt, layer)
		rec.Step(c)
		sig, msg, nt := checkRO(c)
		if nt {
			rec.NonTrivial()
		}
		if sig != "" {
			rec.Failf(rt, sig, "%s", msg)
		}
	})
}

func TestCacheLayer(t *testing.T) { runRO(t, "cache") }
func TestTarLayer(t *testing.T)   { runRO(t, "tar") }

func TestReplayRO(t *testing.T) {
	for _, layer := range []string{"cache", "tar"} {
		layer := layer
		t.Run(layer, func(t *testing.T) {
			vf.Replay(t, layer, func(steps []json.RawMessage) (string, string) {
				for _, raw := range steps {
					var c ROCase
					if err := json.Unmarshal(raw, &c); err != nil {
						return "bad-replay", err.Error()
					}
					if sig, msg, _ := checkRO(c); sig != "" {
						return sig, msg
					}
				}
				return "", ""
			})
		})
	}
}

func TestReplayAll(t *testing.T) {
	for _, kind := range kinds {
		kind := kind
		t.Run(kind, func(t *testing.T) {
			vf.Replay(t, kind, func(steps []json.RawMessage) (string, string) {
				m := newMachine(kind)
				defer m.close()
				for _, raw := range steps {
					var op ops.Op
					if err := json.Unmarshal(raw, &op); err != nil {
						return "bad-replay", err.Error()
					}
					if !hackpadfs.ValidPath(op.P) || ((op.K == "rename" || op.K == "symlink") && !hackpadfs.ValidPath(op.P2)) {
						if sig, msg := m.invalidStep(op); sig != "" {
							return sig, msg
						}
						continue
					}
					tree := gen.TreeOf(ops.SnapOS(m.ref.Root))
					if sig, msg := m.step(op, sit.Of(op, tree)); sig != "" {
						return sig, msg
					}
				}
				return "", ""
			})
		})
	}
}

func knownSig(kind string, op ops.Op, situation string) string { return "" }
func registerProbes()                                          {}
