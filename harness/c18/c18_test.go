// C18: transactions: one result per call, in order; the store is always released.
package c18

import (
	"bytes"
	"context"
	"encoding/json"
	"errors"
	"fmt"
	"sort"
	"sync"
	"sync/atomic"
	"testing"
	"time"

	"github.com/hack-pad/hackpadfs"
	"github.com/hack-pad/hackpadfs/keyvalue"
	"github.com/hack-pad/hackpadfs/keyvalue/blob"
	"github.com/hack-pad/hackpadfs/mem"
	"pgregory.net/rapid"

	"verifharness/internal/kvstore"
	"verifharness/internal/vf"
)

func TestMain(m *testing.M) { vf.Main(m) }

// Call is one transaction call (replay format).
type Call struct {
	K      string `json:"k"` // get, set, finish
	Key    string `json:"key,omitempty"`
	Val    string `json:"val,omitempty"`
	Delete bool   `json:"delete,omitempty"`
	// BadData: the record handed to Set cannot produce its contents (its Data() fails): the Set's result carries an error
	// and the key keeps whatever it held
	BadData bool   `json:"bad_data,omitempty"`
	Handler string `json:"handler,omitempty"` // "", ok, err, abort, abort+err
	How     string `json:"how,omitempty"`     // finish: commit, abort
	Mode    int    `json:"mode,omitempty"`    // at "begin": transaction mode
}

type Header struct {
	Impl string `json:"impl"` // mem, serial
}

var errHandler = errors.New("verif: handler error")
var errBadData = errors.New("verif: record cannot produce its contents")

type env struct {
	impl   string
	store  keyvalue.Store
	plain  *kvstore.Store
	model  map[string]string
	resync bool
}

func newEnv(impl string) *env {
	e := &env{impl: impl, model: map[string]string{}}
	if impl == "mem" {
		e.store = mem.NewStoreForVerif()
	} else {
		e.plain = kvstore.New()
		e.plain.Eager = true // a Get result must be a snapshot of the Get instant, or later Sets of the same transaction would show through
		e.store = e.plain
	}
	return e
}

func record(val string) keyvalue.FileRecord {
	data := []byte(val)
	return keyvalue.NewBaseFileRecord(int64(len(data)), time.Unix(1e9, 0), 0o644, nil, func() (blob.Blob, error) {
		return blob.NewBytes(append([]byte(nil), data...)), nil
	}, nil)
}

// contents reads the store back directly (not through the transaction under test).
func (e *env) contents() (map[string]string, string) {
	out := map[string]string{}
	if e.plain != nil {
		for _, k := range e.plain.Keys() {
			out[k] = string(e.plain.Recs[k].Data)
		}
		return out, ""
	}
	for _, k := range mem.KeysForVerif(e.store.(keyvalue.TransactionStore)) {
		rec, err := e.store.Get(context.Background(), k)
		if err != nil {
			return nil, fmt.Sprintf("direct Get(%q): %v", k, err)
		}
		b, err := rec.Data()
		if err != nil {
			return nil, fmt.Sprintf("direct Data(%q): %v", k, err)
		}
		out[k] = string(b.Bytes())
	}
	return out, ""
}

func sameMap(a, b map[string]string) bool {
	if len(a) != len(b) {
		return false
	}
	for k, v := range a {
		if w, ok := b[k]; !ok || w != v {
			return false
		}
	}
	return true
}

type expect struct {
	call    Call
	id      keyvalue.OpID
	wantErr string // "", "notexist", "handler", "aborted"
	wantVal string
	isGet   bool
}

// runTxn executes one transaction (calls up to and including a finish) and checks it against the model.
func (e *env) runTxn(calls []Call) (string, string) {
	base := "C18/" + e.impl
	var sig, msg string
	pan, hung := vf.Guard(func() { sig, msg = e.runTxnInner(calls) })
	if hung {
		return base + " txn:hang", fmt.Sprintf("transaction %v did not finish", calls)
	}
	if pan != "" {
		return base + " txn:panic", fmt.Sprintf("transaction %v: %s", calls, pan)
	}
	if sig != "" {
		return base + " " + sig, msg
	}
	// the store must be usable afterwards: a fresh transaction opens and commits
	var ferr error
	pan, hung = vf.Guard(func() {
		txn, err := keyvalue.TransactionOrSerial(e.store, keyvalue.TransactionOptions{Mode: keyvalue.TransactionReadWrite})
		if err != nil {
			ferr = err
			return
		}
		txn.Get("a")
		_, ferr = txn.Commit(context.Background())
	})
	if hung {
		return base + " after:store-not-released", fmt.Sprintf("after transaction %v a fresh transaction could not be opened and committed (lock leaked)", calls)
	}
	if pan != "" || ferr != nil {
		return base + " after:fresh-transaction-fails", fmt.Sprintf("after transaction %v: fresh transaction: %s %v", calls, pan, ferr)
	}
	got, prob := e.contents()
	if prob != "" {
		return base + " after:contents", prob
	}
	if e.resync {
		// committed under a done context: applied or not is the implementation's choice; continue from what the store holds
		e.resync = false
		e.model = got
	}
	if !sameMap(got, e.model) {
		return base + " after:store-differs-from-model", fmt.Sprintf("after transaction %v the store holds %v, model %v", calls, got, e.model)
	}
	return "", ""
}

func (e *env) runTxnInner(calls []Call) (string, string) {
	txn, err := keyvalue.TransactionOrSerial(e.store, keyvalue.TransactionOptions{Mode: keyvalue.TransactionReadWrite})
	if err != nil {
		return "begin:error", err.Error()
	}
	aborted := false
	var exp []expect
	// what every handler was handed, by operation id: it must be the result Commit reports for that operation
	handed := map[keyvalue.OpID]keyvalue.OpResult{}
	// ids of the calls handlers issued themselves, by the id of the operation whose handler issued them
	nested := map[keyvalue.OpID]keyvalue.OpID{}
	handler := func(kind, key string) keyvalue.OpHandler {
		return keyvalue.OpHandlerFunc(func(t keyvalue.Transaction, result keyvalue.OpResult) error {
			handed[result.Op] = result
			switch kind {
			case "nested":
				// a handler that goes on working with the transaction it is handed: one more call, with its own id and result
				nested[result.Op] = t.Get(key)
			case "nested+err":
				// ... and then fails: the error belongs to the operation whose handler this is, not to the call it made
				nested[result.Op] = t.Get(key)
				return errHandler
			case "check":
				// a handler that acts on what it is given: a failed operation makes it abort the transaction
				if result.Err != nil {
					_ = t.Abort()
					return result.Err
				}
				return nil
			case "err":
				return errHandler
			case "abort":
				_ = t.Abort()
			case "abort+err":
				_ = t.Abort()
				return errHandler
			}
			return nil
		})
	}
	finished := false
	var results []keyvalue.OpResult
	var commitErr error
	how := ""
	for _, c := range calls {
		switch c.K {
		case "get":
			x := expect{call: c, isGet: true}
			if aborted {
				x.wantErr = "aborted"
			} else if v, ok := e.model[c.Key]; ok {
				x.wantVal = v
				if c.Handler == "err" || c.Handler == "abort+err" || c.Handler == "nested+err" {
					x.wantErr = "handler"
				}
			} else {
				x.wantErr = "notexist"
			}
			if c.Handler == "" {
				x.id = txn.Get(c.Key)
			} else {
				x.id = txn.GetHandler(c.Key, handler(c.Handler, c.Key))
			}
			if !aborted && (c.Handler == "abort" || c.Handler == "abort+err" || (c.Handler == "check" && x.wantErr == "notexist")) {
				aborted = true
			}
			exp = append(exp, x)
			if (c.Handler == "nested" || c.Handler == "nested+err") && x.wantErr != "aborted" {
				nid, ok := nested[x.id]
				if !ok {
					return "handler:not-called", fmt.Sprintf("call %+v: its handler was not run", c)
				}
				nx := expect{call: Call{K: "get", Key: c.Key, Handler: "(issued by the handler of the call before)"}, isGet: true, id: nid}
				if v, ok := e.model[c.Key]; ok {
					nx.wantVal = v
				} else {
					nx.wantErr = "notexist"
				}
				exp = append(exp, nx)
			}
		case "set":
			x := expect{call: c}
			var rec keyvalue.FileRecord
			var contents blob.Blob
			if !c.Delete {
				rec = record(c.Val)
				contents = blob.NewBytes([]byte(c.Val))
			}
			if c.BadData && !c.Delete {
				rec = keyvalue.NewBaseFileRecord(int64(len(c.Val)), time.Unix(1e9, 0), 0o644, nil, func() (blob.Blob, error) {
					return nil, errBadData
				}, nil)
				contents = nil // the store has to ask the record
			}
			if aborted {
				x.wantErr = "aborted"
			} else if c.BadData && !c.Delete {
				x.wantErr = "baddata" // and the model keeps the old value
			} else {
				if c.Delete {
					delete(e.model, c.Key)
				} else {
					e.model[c.Key] = c.Val
				}
				if c.Handler == "err" || c.Handler == "abort+err" || c.Handler == "nested+err" {
					x.wantErr = "handler"
				}
			}
			if c.Handler == "" {
				x.id = txn.Set(c.Key, rec, contents)
			} else {
				x.id = txn.SetHandler(c.Key, rec, contents, handler(c.Handler, c.Key))
			}
			if !aborted && (c.Handler == "abort" || c.Handler == "abort+err" || (c.Handler == "check" && x.wantErr == "baddata")) {
				aborted = true
			}
			exp = append(exp, x)
			if (c.Handler == "nested" || c.Handler == "nested+err") && x.wantErr != "aborted" {
				nid, ok := nested[x.id]
				if !ok {
					return "handler:not-called", fmt.Sprintf("call %+v: its handler was not run", c)
				}
				nx := expect{call: Call{K: "get", Key: c.Key, Handler: "(issued by the handler of the call before)"}, isGet: true, id: nid}
				if v, ok := e.model[c.Key]; ok {
					nx.wantVal = v
				} else {
					nx.wantErr = "notexist"
				}
				exp = append(exp, nx)
			}
		case "finish":
			finished = true
			how = c.How
			if c.How == "commit" {
				results, commitErr = txn.Commit(context.Background())
			} else if c.How == "commit-canceled" {
				// another way a transaction ends: the caller's context is already done. What Commit returns then is
				// not pinned (results or the context's error); that the store is released and consistent is.
				ctx, cancel := context.WithCancel(context.Background())
				cancel()
				_, _ = txn.Commit(ctx)
				e.resync = true
			} else {
				if err := txn.Abort(); err != nil {
					return "abort:error", err.Error()
				}
			}
		}
		if finished {
			break
		}
	}
	if !finished {
		how = "commit"
		results, commitErr = txn.Commit(context.Background())
	}
	if how != "commit" {
		return "", ""
	}
	if commitErr != nil {
		if aborted {
			return "", "" // what Commit returns for an aborted transaction is not pinned
		}
		return "commit:error", fmt.Sprintf("Commit of %v: %v", calls, commitErr)
	}
	if len(results) != len(exp) {
		return "commit:result-count", fmt.Sprintf("Commit returned %d results for %d calls (%v)", len(results), len(exp), calls)
	}
	seen := map[keyvalue.OpID]bool{}
	for i, x := range exp {
		r := results[i]
		if r.Op != x.id {
			return "commit:op-id-order", fmt.Sprintf("result %d has Op=%d, call %d (%+v) returned id %d; calls %v", i, r.Op, i, x.call, x.id, calls)
		}
		if seen[x.id] {
			return "commit:op-id-reused", fmt.Sprintf("operation id %d was handed out twice (call %d %+v); calls %v", x.id, i, x.call, calls)
		}
		seen[x.id] = true
		if h, ok := handed[x.id]; ok && (x.call.Handler == "ok" || x.call.Handler == "check" || x.call.Handler == "abort" || x.call.Handler == "nested") && x.wantErr != "aborted" {
			if (h.Err == nil) != (r.Err == nil) {
				return "commit:handler-saw-different-result", fmt.Sprintf("call %d (%+v): the handler was handed Err=%v, Commit reports Err=%v for the same operation", i, x.call, h.Err, r.Err)
			}
		}
		switch x.wantErr {
		case "aborted":
			if r.Err == nil {
				return "commit:after-abort-no-error", fmt.Sprintf("call %d (%+v) made after Abort has a nil error", i, x.call)
			}
		case "notexist":
			if !errors.Is(r.Err, hackpadfs.ErrNotExist) {
				return "commit:get-missing", fmt.Sprintf("Get of missing key (call %d %+v): Err=%v Record=%v", i, x.call, r.Err, r.Record)
			}
		case "baddata":
			if r.Err == nil {
				return "commit:baddata-no-error", fmt.Sprintf("call %d (%+v): the record's Data() fails but the Set's result has a nil error", i, x.call)
			}
		case "handler":
			if !errors.Is(r.Err, errHandler) {
				return "commit:handler-error-lost", fmt.Sprintf("call %d (%+v): handler returned an error but result.Err=%v", i, x.call, r.Err)
			}
		default:
			if r.Err != nil {
				return "commit:unexpected-error", fmt.Sprintf("call %d (%+v): Err=%v", i, x.call, r.Err)
			}
		}
		if x.isGet && (x.wantErr == "" || x.wantErr == "handler") {
			if r.Record == nil {
				return "commit:get-no-record", fmt.Sprintf("Get call %d (%+v): nil record, want %q", i, x.call, x.wantVal)
			}
			b, err := r.Record.Data()
			if err != nil || !bytes.Equal(b.Bytes(), []byte(x.wantVal)) {
				got := ""
				if b != nil {
					got = string(b.Bytes())
				}
				return "commit:get-stale", fmt.Sprintf("Get call %d (%+v) returned %q (%v), want %q (earlier Sets of this and of committed transactions)", i, x.call, got, err, x.wantVal)
			}
		}
	}
	return "", ""
}

func splitTxns(calls []Call) [][]Call {
	var out [][]Call
	var cur []Call
	for _, c := range calls {
		cur = append(cur, c)
		if c.K == "finish" {
			out = append(out, cur)
			cur = nil
		}
	}
	if len(cur) > 0 {
		out = append(out, cur)
	}
	return out
}

func checkSeq(impl string, calls []Call) (string, string) {
	e := newEnv(impl)
	for _, txn := range splitTxns(calls) {
		if sig, msg := e.runTxn(txn); sig != "" {
			return sig, msg
		}
	}
	return "", ""
}

var keys = []string{"a", "b", "c"}

func genCalls(t *rapid.T) []Call {
	n := rapid.IntRange(1, 8).Draw(t, "n")
	var calls []Call
	for i := 0; i < n; i++ {
		switch rapid.IntRange(0, 9).Draw(t, "kind") {
		case 0, 1, 2, 3:
			c := Call{K: "get", Key: rapid.SampledFrom(keys).Draw(t, "key")}
			if rapid.Bool().Draw(t, "withHandler") {
				c.Handler = rapid.SampledFrom([]string{"ok", "ok", "check", "check", "err", "abort", "abort+err", "nested", "nested", "nested+err"}).Draw(t, "handler")
			}
			calls = append(calls, c)
		case 4, 5, 6, 7:
			c := Call{K: "set", Key: rapid.SampledFrom(keys).Draw(t, "key"), Val: rapid.StringMatching("[a-z]{0,4}").Draw(t, "val")}
			c.Delete = rapid.IntRange(0, 4).Draw(t, "delete") == 0
			c.BadData = !c.Delete && rapid.IntRange(0, 5).Draw(t, "baddata") == 0
			if rapid.Bool().Draw(t, "withHandler") {
				c.Handler = rapid.SampledFrom([]string{"ok", "ok", "check", "check", "err", "abort", "abort+err", "nested", "nested", "nested+err"}).Draw(t, "handler")
			}
			calls = append(calls, c)
		default:
			calls = append(calls, Call{K: "finish", How: rapid.SampledFrom([]string{"commit", "commit", "commit", "abort", "abort", "commit-canceled"}).Draw(t, "how")})
		}
	}
	return calls
}

func run(t *testing.T, impl string) {
	vf.Check(t, impl, func(rt *rapid.T, rec *vf.Rec) {
		calls := genCalls(rt)
		rec.Step(Header{Impl: impl})
		for _, c := range calls {
			rec.Step(c)
		}
		sets, handlers := 0, 0
		for _, c := range calls {
			if c.K == "set" {
				sets++
			}
			if c.Handler == "err" || c.Handler == "abort" || c.Handler == "abort+err" || c.Handler == "nested" || c.Handler == "nested+err" {
				handlers++
				rec.Class("handler:" + c.Handler)
			}
		}
		if len(calls) >= 3 && sets >= 1 {
			rec.NonTrivial()
		}
		if sig, msg := checkSeq(impl, calls); sig != "" {
			rec.Failf(rt, sig, "%s", msg)
		}
	})
}

func TestMemTxn(t *testing.T)    { run(t, "mem") }
func TestSerialTxn(t *testing.T) { run(t, "serial") }

// ------------------------------------------------------------------ isolation (mem): harness-owned interleaving

type IsoCase struct {
	Writers int   `json:"writers"`
	Readers int   `json:"readers"`
	Order   []int `json:"order"` // release order of the goroutines parked inside their first handler
	Settle  int   `json:"settle_us"`
	// ReadOnly: the readers open their transactions with Mode TransactionReadOnly (isolation holds for every mode)
	ReadOnly bool `json:"readonly,omitempty"`
}

// checkIsolation: every writer sets k1 and k2 to its own value inside one transaction, parking inside the handler
// of its first Set until the harness releases it; readers read k1 and k2 inside one transaction, parking inside
// the handler of their first Get. With transactions isolated, a reader never sees k1 != k2 and the final state has k1 == k2.
func checkIsolation(c IsoCase) (string, string) {
	st := mem.NewStoreForVerif()
	init, _ := st.Transaction(keyvalue.TransactionOptions{Mode: keyvalue.TransactionReadWrite})
	init.Set("k1", record("init"), blob.NewBytes([]byte("init")))
	init.Set("k2", record("init"), blob.NewBytes([]byte("init")))
	if _, err := init.Commit(context.Background()); err != nil {
		return "C18/mem isolation:setup", err.Error()
	}
	n := c.Writers + c.Readers
	parked := make(chan int, n)
	release := make([]chan struct{}, n)
	for i := range release {
		release[i] = make(chan struct{})
	}
	type seen struct{ k1, k2 string }
	reads := make([]seen, n)
	var wg sync.WaitGroup
	val := func(r keyvalue.OpResult) string {
		if r.Err != nil || r.Record == nil {
			return "ERR"
		}
		b, err := r.Record.Data()
		if err != nil {
			return "ERR"
		}
		return string(b.Bytes())
	}
	for i := 0; i < n; i++ {
		i := i
		wg.Add(1)
		go func() {
			defer wg.Done()
			mode := keyvalue.TransactionReadWrite
			if i >= c.Writers && c.ReadOnly {
				mode = keyvalue.TransactionReadOnly
			}
			txn, err := st.Transaction(keyvalue.TransactionOptions{Mode: mode})
			if err != nil {
				return
			}
			park := keyvalue.OpHandlerFunc(func(keyvalue.Transaction, keyvalue.OpResult) error {
				parked <- i
				<-release[i]
				return nil
			})
			if i < c.Writers {
				v := fmt.Sprintf("w%d", i)
				txn.SetHandler("k1", record(v), blob.NewBytes([]byte(v)), park)
				txn.Set("k2", record(v), blob.NewBytes([]byte(v)))
				_, _ = txn.Commit(context.Background())
			} else {
				txn.GetHandler("k1", park)
				txn.Get("k2")
				res, _ := txn.Commit(context.Background())
				if len(res) == 2 {
					reads[i] = seen{val(res[0]), val(res[1])}
				}
			}
		}()
	}
	// Release in the drawn order: each goroutine that parks holds the store's transaction lock (if isolation
	// works nobody else can be parked at the same time), so wait for one to park, let the others pile up, release it.
	deadline := time.After(vf.WatchdogDur())
	for done := 0; done < n; done++ {
		select {
		case i := <-parked:
			time.Sleep(time.Duration(c.Settle) * time.Microsecond)
			// anyone else parked at the same moment? then two transactions are inside the store at once
			select {
			case j := <-parked:
				close(release[i])
				close(release[j])
				done++
				// let the rest run out
				go func() {
					for k := range parked {
						close(release[k])
					}
				}()
				wg.Wait()
				return "C18/mem isolation:two-transactions-inside", fmt.Sprintf("goroutines %d and %d were both inside a transaction's handler at the same time", i, j)
			default:
			}
			close(release[i])
		case <-deadline:
			return "C18/mem isolation:hang", "concurrent transactions did not finish"
		}
	}
	wg.Wait()
	for i := c.Writers; i < n; i++ {
		if reads[i].k1 != reads[i].k2 {
			return "C18/mem isolation:torn-read", fmt.Sprintf("reader %d saw k1=%q k2=%q inside one transaction", i, reads[i].k1, reads[i].k2)
		}
	}
	fin, _ := st.Transaction(keyvalue.TransactionOptions{})
	fin.Get("k1")
	fin.Get("k2")
	res, _ := fin.Commit(context.Background())
	if len(res) != 2 || val(res[0]) != val(res[1]) {
		return "C18/mem isolation:torn-final-state", fmt.Sprintf("final k1=%q k2=%q", val(res[0]), val(res[1]))
	}
	return "", ""
}

// ------------------------------------------------------------------ stale handles: a transaction ended twice while another is open

// StaleCase: T1 ends (abort / commit / aborting handler); T2 begins and is half-way through its Sets; T1's stale handle is
// used again (Sets, then a second Commit or Abort); T3 tries to begin. "Calls made after Abort have no effect" and "however a
// transaction ends the store remains usable" include: ending T1 a second time must not release the lock T2 holds.
type StaleCase struct {
	FirstEnd  string `json:"first_end"`  // abort, commit, handler-abort
	SecondEnd string `json:"second_end"` // commit, abort
	StaleSets int    `json:"stale_sets"`
	SettleUS  int    `json:"settle_us"`
}

func checkStale(c StaleCase) (string, string) {
	st := mem.NewStoreForVerif()
	val := func(r keyvalue.OpResult) string {
		if r.Err != nil || r.Record == nil {
			return "ERR"
		}
		b, err := r.Record.Data()
		if err != nil {
			return "ERR"
		}
		return string(b.Bytes())
	}
	rw := keyvalue.TransactionOptions{Mode: keyvalue.TransactionReadWrite}
	var sig, msg string
	pan, hung := vf.GuardN(3, func() {
		t1, err := st.Transaction(rw)
		if err != nil {
			sig, msg = "C18/mem stale:begin", err.Error()
			return
		}
		switch c.FirstEnd {
		case "abort":
			t1.Set("k0", record("t1"), blob.NewBytes([]byte("t1")))
			_ = t1.Abort()
		case "handler-abort":
			t1.SetHandler("k0", record("t1"), blob.NewBytes([]byte("t1")), keyvalue.OpHandlerFunc(func(t keyvalue.Transaction, _ keyvalue.OpResult) error {
				return t.Abort()
			}))
			_, _ = t1.Commit(context.Background())
		default:
			t1.Set("k0", record("t1"), blob.NewBytes([]byte("t1")))
			_, _ = t1.Commit(context.Background())
		}
		t2, err := st.Transaction(rw)
		if err != nil {
			sig, msg = "C18/mem stale:begin2", err.Error()
			return
		}
		t2.Set("k1", record("t2"), blob.NewBytes([]byte("t2")))
		// the stale handle of the finished T1 is used again
		for i := 0; i < c.StaleSets; i++ {
			t1.Set("k1", record("stale"), blob.NewBytes([]byte("stale")))
		}
		if c.SecondEnd == "abort" {
			_ = t1.Abort()
		} else {
			_, _ = t1.Commit(context.Background())
		}
		var acquired int32
		type seen struct{ k1, k2 string }
		got := make(chan seen, 1)
		go func() {
			t3, err := st.Transaction(rw)
			if err != nil {
				got <- seen{"ERR", "ERR"}
				return
			}
			atomic.StoreInt32(&acquired, 1)
			t3.Get("k1")
			t3.Get("k2")
			res, _ := t3.Commit(context.Background())
			if len(res) != 2 {
				got <- seen{"?", "?"}
				return
			}
			got <- seen{val(res[0]), val(res[1])}
		}()
		time.Sleep(time.Duration(c.SettleUS) * time.Microsecond)
		early := atomic.LoadInt32(&acquired) == 1
		t2.Set("k2", record("t2"), blob.NewBytes([]byte("t2")))
		_, _ = t2.Commit(context.Background())
		r := <-got
		if early {
			sig, msg = "C18/mem stale:lock-released-by-ended-transaction", fmt.Sprintf("T1 ended (%s), T2 began and was half-way, T1's stale handle was ended again (%s): a third transaction could begin while T2 was still open (it saw k1=%q k2=%q)", c.FirstEnd, c.SecondEnd, r.k1, r.k2)
			return
		}
		if r.k1 != "t2" || r.k2 != "t2" {
			sig, msg = "C18/mem stale:effects", fmt.Sprintf("after T2 committed k1=k2=t2 a new transaction reads k1=%q k2=%q (stale handle of the ended T1: %d Sets, then %s)", r.k1, r.k2, c.StaleSets, c.SecondEnd)
		}
	})
	if hung {
		return "C18/mem stale:hang", fmt.Sprintf("%+v did not finish", c)
	}
	if pan != "" {
		return "C18/mem stale:panic", pan
	}
	return sig, msg
}

func TestStale(t *testing.T) {
	vf.Check(t, "stale", func(rt *rapid.T, rec *vf.Rec) {
		c := StaleCase{
			FirstEnd:  rapid.SampledFrom([]string{"abort", "commit", "handler-abort"}).Draw(rt, "first"),
			SecondEnd: rapid.SampledFrom([]string{"commit", "abort"}).Draw(rt, "second"),
			StaleSets: rapid.IntRange(0, 2).Draw(rt, "stalesets"),
			SettleUS:  rapid.IntRange(200, 3000).Draw(rt, "settle"),
		}
		rec.Step(c)
		rec.NonTrivial()
		rec.Class("first:" + c.FirstEnd + ",second:" + c.SecondEnd)
		if sig, msg := checkStale(c); sig != "" {
			rec.Failf(rt, sig, "%s", msg)
		}
	})
}

func TestIsolation(t *testing.T) {
	vf.Check(t, "isolation", func(rt *rapid.T, rec *vf.Rec) {
		c := IsoCase{Writers: rapid.IntRange(1, 3).Draw(rt, "writers"), Readers: rapid.IntRange(1, 3).Draw(rt, "readers"), Settle: rapid.IntRange(0, 300).Draw(rt, "settle"), ReadOnly: rapid.Bool().Draw(rt, "readonly")}
		rec.Step(c)
		rec.NonTrivial()
		if sig, msg := checkIsolation(c); sig != "" {
			rec.Failf(rt, sig, "%s", msg)
		}
	})
}

// ------------------------------------------------------------------ refused: Transaction() itself fails while another transaction is open

// flakyStore is the real in-memory TransactionStore whose next `refuse` Transaction() calls fail (a store that cannot begin
// a transaction right now, as IndexedDB can).
type flakyStore struct {
	keyvalue.TransactionStore
	refuse int32
}

var errRefused = errors.New("verif: the store cannot begin a transaction")

func (s *flakyStore) Transaction(o keyvalue.TransactionOptions) (keyvalue.Transaction, error) {
	if atomic.AddInt32(&s.refuse, -1) >= 0 {
		return nil, errRefused
	}
	return s.TransactionStore.Transaction(o)
}

// RefusedCase: T1 is open on a TransactionStore and has read k1. Somebody else now asks for a transaction -- through the
// dispatcher every FS operation uses (keyvalue.TransactionOrSerial), or through a keyvalue.FS operation on the same store --
// and the store REFUSES the next Refuse Transaction() calls. Whatever the refused caller is handed, it is used to change k1
// and k2. T1 then reads k1 again and k2. "Transactions of a TransactionStore never observe each other's partial effects":
// T1 reads what it read before (the refused caller either gets an error or waits for T1).
type RefusedCase struct {
	Via      string `json:"via"`    // dispatch, fs
	Op       string `json:"op"`     // fs: write, remove, rename
	Refuse   int    `json:"refuse"` // how many Transaction() calls are refused
	SettleUS int    `json:"settle_us"`
}

func checkRefused(c RefusedCase) (string, string) {
	st := &flakyStore{TransactionStore: mem.NewStoreForVerif()}
	fs, err := keyvalue.NewFS(st)
	if err != nil {
		return "C18/mem refused:setup", err.Error()
	}
	val := func(r keyvalue.OpResult) string {
		if r.Err != nil || r.Record == nil {
			return "ERR"
		}
		b, err := r.Record.Data()
		if err != nil {
			return "ERR"
		}
		return string(b.Bytes())
	}
	rw := keyvalue.TransactionOptions{Mode: keyvalue.TransactionReadWrite}
	var sig, msg string
	pan, hung := vf.GuardN(3, func() {
		init, err := st.Transaction(rw)
		if err != nil {
			sig, msg = "C18/mem refused:setup", err.Error()
			return
		}
		init.Set("k1", record("init"), blob.NewBytes([]byte("init")))
		init.Set("k2", record("init"), blob.NewBytes([]byte("init")))
		if _, err := init.Commit(context.Background()); err != nil {
			sig, msg = "C18/mem refused:setup", err.Error()
			return
		}
		t1, err := keyvalue.TransactionOrSerial(st, rw)
		if err != nil {
			sig, msg = "C18/mem refused:begin", err.Error()
			return
		}
		done := make(chan struct{})
		var told string
		var first string
		t1.GetHandler("k1", keyvalue.OpHandlerFunc(func(_ keyvalue.Transaction, r keyvalue.OpResult) error {
			first = val(r)
			atomic.StoreInt32(&st.refuse, int32(c.Refuse))
			go func() {
				defer close(done)
				if c.Via == "dispatch" {
					t2, err := keyvalue.TransactionOrSerial(st, rw)
					if err != nil {
						told = "error: " + err.Error()
						return
					}
					told = "a transaction"
					t2.Set("k1", record("x"), blob.NewBytes([]byte("x")))
					t2.Set("k2", record("x"), blob.NewBytes([]byte("x")))
					_, _ = t2.Commit(context.Background())
					return
				}
				var err error
				switch c.Op {
				case "write":
					var f hackpadfs.File
					f, err = fs.OpenFile("k2", hackpadfs.FlagWriteOnly|hackpadfs.FlagTruncate, 0)
					if err == nil {
						_, err = hackpadfs.WriteFile(f, []byte("x"))
						_ = f.Close()
					}
				case "remove":
					err = fs.Remove("k2")
				default:
					err = fs.Rename("k2", "k3")
				}
				told = fmt.Sprint("result: ", err)
			}()
			select {
			case <-done:
			case <-time.After(time.Duration(c.SettleUS) * time.Microsecond):
				// it waits for T1's lock, as a real transaction does
			}
			atomic.StoreInt32(&st.refuse, 0)
			return nil
		}))
		// what T1 reads is captured INSIDE the transaction (in the handlers): a record of the in-memory store hands out its
		// live blob, which a later writer changes in place once T1 has committed and released the store
		var again, other string
		t1.GetHandler("k1", keyvalue.OpHandlerFunc(func(_ keyvalue.Transaction, r keyvalue.OpResult) error { again = val(r); return nil }))
		t1.GetHandler("k2", keyvalue.OpHandlerFunc(func(_ keyvalue.Transaction, r keyvalue.OpResult) error { other = val(r); return nil }))
		res, _ := t1.Commit(context.Background())
		<-done
		if len(res) != 3 {
			sig, msg = "C18/mem refused:results", fmt.Sprintf("%d results for 3 calls", len(res))
			return
		}
		if a, b, k2 := first, again, other; a != "init" || b != "init" || k2 != "init" {
			sig = "C18/mem refused:open-transaction-sees-outside-writes"
			msg = fmt.Sprintf("T1 (open, holding the store) read k1=%q, then the store refused %d Transaction() call(s) of a second caller (%s %s, who was handed %s), then T1 read k1=%q k2=%q: writes from outside became visible inside an open transaction", a, c.Refuse, c.Via, c.Op, told, b, k2)
		}
	})
	if hung {
		return "C18/mem refused:hang", fmt.Sprintf("%+v did not finish", c)
	}
	if pan != "" {
		return "C18/mem refused:panic", pan
	}
	return sig, msg
}

func TestRefused(t *testing.T) {
	vf.Check(t, "refused", func(rt *rapid.T, rec *vf.Rec) {
		c := RefusedCase{
			Via:      rapid.SampledFrom([]string{"dispatch", "fs"}).Draw(rt, "via"),
			Refuse:   rapid.SampledFrom([]int{1, 2, 3, 1000}).Draw(rt, "refuse"),
			SettleUS: rapid.IntRange(100, 2000).Draw(rt, "settle"),
		}
		if c.Via == "fs" {
			c.Op = rapid.SampledFrom([]string{"write", "remove", "rename"}).Draw(rt, "op")
		}
		rec.Step(c)
		rec.NonTrivial()
		rec.Class(fmt.Sprintf("via:%s%s,refuse:%d", c.Via, c.Op, c.Refuse))
		if sig, msg := checkRefused(c); sig != "" {
			rec.Failf(rt, sig, "%s", msg)
		}
	})
}

// ------------------------------------------------------------------ replay

func TestReplayAll(t *testing.T) {
	for _, impl := range []string{"mem", "serial"} {
		impl := impl
		t.Run(impl, func(t *testing.T) {
			vf.Replay(t, impl, func(steps []json.RawMessage) (string, string) {
				var calls []Call
				for _, raw := range steps {
					var c Call
					if err := json.Unmarshal(raw, &c); err == nil && c.K != "" {
						calls = append(calls, c)
					}
				}
				return checkSeq(impl, calls)
			})
		})
	}
	t.Run("isolation", func(t *testing.T) {
		vf.Replay(t, "isolation", func(steps []json.RawMessage) (string, string) {
			for _, raw := range steps {
				var c IsoCase
				if err := json.Unmarshal(raw, &c); err != nil {
					return "bad-replay", err.Error()
				}
				for rep := 0; rep < 50; rep++ {
					if sig, msg := checkIsolation(c); sig != "" {
						return sig, msg
					}
				}
			}
			return "", ""
		})
	})
	t.Run("refused", func(t *testing.T) {
		vf.Replay(t, "refused", func(steps []json.RawMessage) (string, string) {
			for _, raw := range steps {
				var c RefusedCase
				if err := json.Unmarshal(raw, &c); err != nil {
					return "bad-replay", err.Error()
				}
				for rep := 0; rep < 20; rep++ {
					if sig, msg := checkRefused(c); sig != "" {
						return sig, msg
					}
				}
			}
			return "", ""
		})
	})
	t.Run("stale", func(t *testing.T) {
		vf.Replay(t, "stale", func(steps []json.RawMessage) (string, string) {
			for _, raw := range steps {
				var c StaleCase
				if err := json.Unmarshal(raw, &c); err != nil {
					return "bad-replay", err.Error()
				}
				for rep := 0; rep < 20; rep++ {
					if sig, msg := checkStale(c); sig != "" {
						return sig, msg
					}
				}
			}
			return "", ""
		})
	})
}

var _ = sort.Strings
