// C12: the tar FS presents exactly the archive's logical tree.
//
//go:debug tarinsecurepath=1
package c12

import (
	"archive/tar"
	"bytes"
	"context"
	"encoding/json"
	"fmt"
	"path"
	"sort"
	"strings"
	"sync"
	"testing"
	"time"

	"github.com/hack-pad/hackpadfs"
	"github.com/hack-pad/hackpadfs/keyvalue"
	"github.com/hack-pad/hackpadfs/mem"
	htar "github.com/hack-pad/hackpadfs/tar"
	"pgregory.net/rapid"

	"verifharness/internal/masks"
	"verifharness/internal/ops"
	"verifharness/internal/sched"
	"verifharness/internal/subj"
	"verifharness/internal/vf"
	"verifharness/internal/world"
)

func TestMain(m *testing.M) {
	vf.RegisterProbe(knownLostMode, probeLostMode)
	world.Init()
	vf.Main(m, world.Cleanup)
}

func must(err error) {
	if err != nil {
		panic(err)
	}
}

// Entry is one archive entry as written (replay format). Content is derived from (Path, Size).
type Entry struct {
	Path  string `json:"path"`  // logical (clean) path
	Spell string `json:"spell"` // the name as spelled in the archive
	Dir   bool   `json:"dir"`
	Size  int    `json:"size"`
	Perm  uint32 `json:"perm"`
	// Flag: the tar type flag of a regular-file entry if not the usual '0': 0 (the pre-POSIX NUL flag) or '7' (a contiguous
	// file); archive/tar and Header.FileInfo() present both as regular files
	Flag string `json:"flag,omitempty"`
}

type Case struct {
	Entries  []Entry `json:"entries"`
	Dest     string  `json:"dest"`  // default, mem, minimal, os
	Order    []int   `json:"order"` // release order of gated destination calls
	HoldAll  bool    `json:"hold_all,omitempty"`
	Escape   string  `json:"escape,omitempty"`
	EscapeAt int     `json:"escape_at,omitempty"`
}

func content(p string, size int) []byte {
	b := make([]byte, size)
	seed := len(p)*31 + int(p[len(p)-1])
	for i := range b {
		b[i] = byte('a' + (i*7+seed+i/1000)%26)
	}
	return b
}

func buildArchive(c Case) []byte {
	var buf bytes.Buffer
	tw := tar.NewWriter(&buf)
	write := func(e Entry) {
		if e.Dir {
			must(tw.WriteHeader(&tar.Header{Name: e.Spell, Typeflag: tar.TypeDir, Mode: int64(e.Perm)}))
			return
		}
		flag := byte(tar.TypeReg)
		switch e.Flag {
		case "cont":
			flag = tar.TypeCont
		case "nul":
			flag = tar.TypeRegA //nolint:staticcheck // the deprecated flag is what old archives carry
		}
		must(tw.WriteHeader(&tar.Header{Name: e.Spell, Typeflag: flag, Mode: int64(e.Perm), Size: int64(e.Size)}))
		_, err := tw.Write(content(e.Path, e.Size))
		must(err)
	}
	for i, e := range c.Entries {
		if c.Escape != "" && i == c.EscapeAt {
			must(tw.WriteHeader(&tar.Header{Name: c.Escape, Typeflag: tar.TypeReg, Mode: 0o644, Size: 3}))
			_, err := tw.Write([]byte("esc"))
			must(err)
		}
		write(e)
	}
	if c.Escape != "" && c.EscapeAt >= len(c.Entries) {
		must(tw.WriteHeader(&tar.Header{Name: c.Escape, Typeflag: tar.TypeReg, Mode: 0o644, Size: 3}))
		_, err := tw.Write([]byte("esc"))
		must(err)
	}
	must(tw.Close())
	return buf.Bytes()
}

// ------------------------------------------------------------------ gate: the harness decides which blocked destination call runs next

type gate struct {
	mu      sync.Mutex
	waiting []chan struct{}
	order   []int
	used    int
	arrived chan struct{}
	stop    chan struct{}
	free    bool // once the drawn order is used up, calls pass straight through
	calls   int
	// holdAll: nothing is released until no further call arrives for a while (every background writer that can start has
	// started and the reader is waiting for a buffer); then everything is released at once. Exercises the buffer pools' bound.
	holdAll bool
	maxHeld int
}

func newGate(order []int) *gate {
	g := &gate{order: order, arrived: make(chan struct{}, 1024), stop: make(chan struct{})}
	if len(order) == 0 {
		g.free = true
	}
	go g.schedule()
	return g
}

func (g *gate) enter() { g.enterKind("") }

func (g *gate) enterKind(kind string) {
	g.mu.Lock()
	g.calls++
	if g.free || (g.holdAll && kind != "openfile") {
		// hold-all mode parks only the background writers (their OpenFile); the reader's own foreground calls pass
		g.mu.Unlock()
		return
	}
	ch := make(chan struct{})
	g.waiting = append(g.waiting, ch)
	g.mu.Unlock()
	select {
	case g.arrived <- struct{}{}:
	default:
	}
	<-ch
}

func (g *gate) schedule() {
	for {
		select {
		case <-g.stop:
			g.mu.Lock()
			g.free = true
			for _, ch := range g.waiting {
				close(ch)
			}
			g.waiting = nil
			g.mu.Unlock()
			return
		case <-g.arrived:
		case <-time.After(2 * time.Millisecond):
		}
		// settle: wait until no further call arrives for a short while, so that "everyone who can reach the gate has"
		for i := 0; i < 20; i++ {
			g.mu.Lock()
			n := len(g.waiting)
			g.mu.Unlock()
			time.Sleep(100 * time.Microsecond)
			g.mu.Lock()
			same := len(g.waiting) == n
			g.mu.Unlock()
			if same {
				break
			}
		}
		g.mu.Lock()
		if len(g.waiting) > g.maxHeld {
			g.maxHeld = len(g.waiting)
		}
		if g.holdAll {
			if len(g.waiting) > 0 {
				n := len(g.waiting)
				g.mu.Unlock()
				time.Sleep(3 * time.Millisecond)
				g.mu.Lock()
				if len(g.waiting) == n { // quiescent: release everybody, then hold the next wave
					for _, ch := range g.waiting {
						close(ch)
					}
					g.waiting = nil
				}
			}
			g.mu.Unlock()
			continue
		}
		if len(g.waiting) > 0 {
			idx := 0
			if g.used < len(g.order) {
				idx = g.order[g.used] % len(g.waiting)
				g.used++
			} else {
				g.free = true
				for _, ch := range g.waiting {
					close(ch)
				}
				g.waiting = nil
				g.mu.Unlock()
				continue
			}
			ch := g.waiting[idx]
			g.waiting = append(g.waiting[:idx], g.waiting[idx+1:]...)
			close(ch)
		}
		g.mu.Unlock()
	}
}

// gatedMin exposes only what tar requires (OpenFile + Chmod + Mkdir), every call passing the gate.
type gatedMin struct {
	inner interface {
		hackpadfs.OpenFileFS
		hackpadfs.ChmodFS
		hackpadfs.MkdirFS
	}
	g *gate
}

func (d gatedMin) Open(name string) (hackpadfs.File, error) { return d.inner.Open(name) }
func (d gatedMin) OpenFile(name string, flag int, perm hackpadfs.FileMode) (hackpadfs.File, error) {
	d.g.enterKind("openfile")
	f, err := d.inner.OpenFile(name, flag, perm)
	if err != nil {
		return nil, err
	}
	return &gatedFile{File: f, g: d.g}, nil
}
func (d gatedMin) Chmod(name string, mode hackpadfs.FileMode) error {
	d.g.enter()
	return d.inner.Chmod(name, mode)
}
func (d gatedMin) Mkdir(name string, perm hackpadfs.FileMode) error {
	d.g.enter()
	return d.inner.Mkdir(name, perm)
}

// gatedFull additionally forwards the optimized methods of a full FS.
type gatedFull struct {
	gatedMin
	full hackpadfs.FS
}

func (d gatedFull) MkdirAll(p string, perm hackpadfs.FileMode) error {
	d.g.enter()
	return hackpadfs.MkdirAll(d.full, p, perm)
}
func (d gatedFull) Stat(name string) (hackpadfs.FileInfo, error) { return hackpadfs.Stat(d.full, name) }

type gatedFile struct {
	hackpadfs.File
	g *gate
}

func (f *gatedFile) Write(p []byte) (int, error) {
	f.g.enter()
	return hackpadfs.WriteFile(f.File, p)
}

// ------------------------------------------------------------------ check

type destFS interface {
	hackpadfs.OpenFileFS
	hackpadfs.ChmodFS
	hackpadfs.MkdirFS
}

const knownLostMode = "C12:dir-mode-lost-mkdirall-vs-mkdir"

var excludedDirs int

func probeLostMode() (bool, string) {
	s := sched.New([]int{0, 0, 1, 1, 1, 1, 1, 0})
	st := &sched.Store{Inner: mem.NewStoreForVerif(), S: s}
	fs, err := keyvalue.NewFS(st)
	must(err)
	must(fs.Mkdir("a", 0o755))
	var e0, e1 error
	ok := s.Run(5*time.Second, func() { e0 = fs.MkdirAll("a/b", 0o700) }, func() { e1 = fs.Mkdir("a/b", 0o711) })
	fi, serr := fs.Stat("a/b")
	if !ok || serr != nil {
		return false, fmt.Sprintf("probe did not run: ok=%v %v", ok, serr)
	}
	return e0 == nil && e1 == nil && fi.Mode().Perm() == 0o700,
		fmt.Sprintf("MkdirAll(a/b,0700) paused between its look-up and its write while Mkdir(a/b,0711) ran: errors %v %v, final mode %v", e0, e1, fi.Mode().Perm())
}

func expected(c Case) map[string]ops.Node {
	exp := map[string]ops.Node{".": {Kind: 'd', Perm: 0xFFFF}}
	rootEntry := false
	defer func() {
		if !rootEntry {
			exp["."] = ops.Node{Kind: 'd', Perm: 0xFFFF}
		}
	}()
	for _, e := range c.Entries {
		for d := path.Dir(e.Path); d != "."; d = path.Dir(d) {
			if _, ok := exp[d]; !ok {
				exp[d] = ops.Node{Kind: 'd', Perm: 0xFFFF} // ancestor: kind only
			}
		}
	}
	memBacked := c.Dest != "os"
	for i, e := range c.Entries {
		if e.Dir {
			exp[e.Path] = ops.Node{Kind: 'd', Perm: e.Perm & 0o777}
			if e.Path == "." {
				rootEntry = true
				continue // the root always exists, nothing creates it in the foreground: its bits are pinned
			}
			if memBacked && vf.Known(knownLostMode) {
				// known finding: a later entry below this directory makes tar call MkdirAll(dir, 0700) in the foreground while the
				// directory's own Mkdir/Chmod runs in the background; on the in-memory FS those calls are not atomic and the mode can be lost
				for _, later := range c.Entries[i+1:] {
					if strings.HasPrefix(later.Path, e.Path+"/") {
						exp[e.Path] = ops.Node{Kind: 'd', Perm: 0xFFFF}
						excludedDirs++
						break
					}
				}
			}
		} else {
			exp[e.Path] = ops.Node{Kind: 'f', Perm: e.Perm & 0o777, Size: int64(e.Size), Data: string(content(e.Path, e.Size))}
		}
	}
	return exp
}

func compare(exp map[string]ops.Node, got ops.Snap, what string) string {
	var ks []string
	for k := range exp {
		ks = append(ks, k)
	}
	for k := range got {
		if _, ok := exp[k]; !ok {
			ks = append(ks, k)
		}
	}
	sort.Strings(ks)
	for _, k := range ks {
		e, okE := exp[k]
		g, okG := got[k]
		switch {
		case !okE:
			return fmt.Sprintf("%s has %q (%s) which the archive does not contain", what, k, short(g))
		case !okG:
			return fmt.Sprintf("%s lacks %q (%s)", what, k, short(e))
		}
		if k == "." && e.Perm == 0xFFFF {
			continue // the root is not an entry: whatever the destination had
		}
		if e.Perm == 0xFFFF {
			e.Perm = g.Perm
		}
		if e != g {
			return fmt.Sprintf("%s: %q is %s, the archive says %s", what, k, short(g), short(e))
		}
	}
	return ""
}

func short(n ops.Node) string {
	if len(n.Data) > 24 {
		n.Data = n.Data[:24] + "..."
	}
	return n.String()
}

type outcome struct{ gatedCalls, maxHeld int }

func check(c Case) (string, string, outcome) {
	var sig, msg string
	var out outcome
	pan, hung := vf.Guard(func() { sig, msg, out = checkInner(c) })
	if hung {
		return "C12 hang", "unpacking or inspection did not terminate", out
	}
	if pan != "" {
		return "C12 panic", pan, out
	}
	return sig, msg, out
}

func checkInner(c Case) (string, string, outcome) {
	var out outcome
	archive := buildArchive(c)
	g := newGate(c.Order)
	if c.HoldAll {
		g.mu.Lock()
		g.holdAll, g.free = true, false
		g.mu.Unlock()
	}
	defer close(g.stop)
	var opts htar.ReaderFSOptions
	var inner hackpadfs.FS
	var w *world.World
	switch c.Dest {
	case "default":
	case "mem":
		m := subj.NewMem()
		inner = m
		opts.UnarchiveFS = gatedFull{gatedMin{inner: m, g: g}, m}
	case "minimal":
		m := subj.NewMem()
		inner = m
		mk := masks.New(m, []string{"OpenFileFS", "MkdirFS", "ChmodFS"}, &masks.Hooks{})
		opts.UnarchiveFS = gatedMin{inner: mk.(destFS), g: g}
	case "os":
		w = world.New()
		defer w.Close()
		o := subj.OSFS(w.Root, 1)
		inner = o
		opts.UnarchiveFS = gatedFull{gatedMin{inner: o.(destFS), g: g}, o}
	}
	base := "C12/" + c.Dest
	tfs, err := htar.NewReaderFS(context.Background(), bytes.NewReader(archive), opts)
	if err != nil {
		return base + " constructor", err.Error(), out
	}
	select {
	case <-tfs.Done():
	case <-time.After(vf.WatchdogDur() * 2):
		return base + " done-never-closed", fmt.Sprintf("Done() did not close for an archive of %d entries", len(c.Entries)), out
	}
	g.mu.Lock()
	out.gatedCalls = g.calls
	out.maxHeld = g.maxHeld
	g.mu.Unlock()
	uerr := tfs.UnarchiveErr()
	if c.Escape != "" {
		if uerr == nil {
			return base + " escape:accepted", fmt.Sprintf("an entry named %q did not make unpacking fail", c.Escape), out
		}
		esc := path.Base(c.Escape)
		if inner != nil {
			snap, _ := ops.SnapFS(inner)
			for k := range snap {
				if path.Base(k) == esc && !inTree(c, k) {
					return base + " escape:created", fmt.Sprintf("an entry named %q created %q in the destination", c.Escape, k), out
				}
			}
		}
		if w != nil && !w.SentinelIntact() {
			return base + " escape:outside-root", fmt.Sprintf("an entry named %q changed something outside the destination root", c.Escape), out
		}
		return "", "", out
	}
	if uerr != nil {
		return base + " unarchive-error", fmt.Sprintf("well-formed archive of %d entries: UnarchiveErr() = %v", len(c.Entries), uerr), out
	}
	exp := expected(c)
	snap, prob := ops.SnapFS(tfs)
	if prob != "" {
		return base + " snapshot", prob, out
	}
	if d := compare(exp, snap, "the tar FS"); d != "" {
		return base + " tree-differs", d, out
	}
	if inner != nil {
		isnap, prob := ops.SnapFS(inner)
		if prob != "" {
			return base + " snapshot", prob, out
		}
		if d := compare(exp, isnap, "the destination FS"); d != "" {
			return base + " destination-differs", d, out
		}
	}
	return "", "", out
}

func inTree(c Case, p string) bool {
	for _, e := range c.Entries {
		if e.Path == p || strings.HasPrefix(e.Path, p+"/") {
			return true
		}
	}
	return false
}

// ------------------------------------------------------------------ generation

var smallSizes = []int{0, 1, 2, 17, 100, 511, 512, 513, 4000}
var thresholdSizes = []int{150*1024 - 1, 150 * 1024, 150*1024 + 1}

func spell(t *rapid.T, p string, dir bool) string {
	els := strings.Split(p, "/")
	s := ""
	for i, el := range els {
		if i > 0 {
			s += rapid.SampledFrom([]string{"/", "/", "/", "//", "/./"}).Draw(t, "sep")
		}
		s += el
	}
	// every prefix below cleans (path.Clean, then the leading slash dropped) to the same rooted name
	s = rapid.SampledFrom([]string{"", "", "", "./", "/", "././", "//", "///", "/./", "/.//", ".//"}).Draw(t, "prefix") + s
	if dir && rapid.IntRange(0, 2).Draw(t, "slash") != 0 {
		s += "/"
	}
	return s
}

func genCase(t *rapid.T, many bool) Case {
	c := Case{Dest: rapid.SampledFrom([]string{"default", "mem", "mem", "minimal", "minimal", "os"}).Draw(t, "dest")}
	// logical tree
	dirs := []string{"."}
	nd := rapid.IntRange(0, 6).Draw(t, "ndirs")
	for i := 0; i < nd; i++ {
		parent := rapid.SampledFrom(dirs).Draw(t, "parent")
		if strings.Count(parent, "/") >= 3 {
			continue
		}
		// sibling names that are string prefixes of each other (a / ab / a.d), a dot name, upper case
		// and names that merely CONTAIN dots next to each other: "..." / "..c" / "a..d" are ordinary names, not parent references
		d := rapid.SampledFrom([]string{"a", "ab", "b", "a.d", ".c", "B", "a", "ab", "b", "a..d", "..c", "..."}).Draw(t, "dname")
		if parent != "." {
			d = parent + "/" + d
		}
		if !containsStr(dirs, d) {
			dirs = append(dirs, d)
		}
	}
	maxFiles := 12
	if many {
		maxFiles = 120
	}
	nf := rapid.IntRange(0, maxFiles).Draw(t, "nfiles")
	if many {
		nf = rapid.IntRange(85, maxFiles).Draw(t, "nfilesmany")
	}
	used := map[string]bool{}
	for _, d := range dirs {
		used[d] = true
	}
	var entries []Entry
	big := rapid.IntRange(0, 9).Draw(t, "bigcase") == 0
	for i := 0; i < nf; i++ {
		p := fmt.Sprintf(rapid.SampledFrom([]string{"f%d", "f%d", "f%d", "f%d", "f%d", "f%d", "f%d..x", "..f%d", "f%d.", ".f%d", "f%d x", "...%d"}).Draw(t, "fshape"), i)
		if parent := rapid.SampledFrom(dirs).Draw(t, "fdir"); parent != "." {
			p = parent + "/" + p
		}
		if used[p] {
			continue
		}
		used[p] = true
		size := rapid.SampledFrom(smallSizes).Draw(t, "size")
		switch rapid.IntRange(0, 19).Draw(t, "sizeclass") {
		case 0, 1:
			size = rapid.SampledFrom(thresholdSizes).Draw(t, "threshold")
		case 2:
			if big {
				size = 4*1024*1024 + 1
				big = false
			}
		}
		entries = append(entries, Entry{Path: p, Size: size, Perm: rapid.SampledFrom([]uint32{0o644, 0o600, 0o755, 0o444, 0o640, 0o644, 0o600, 0, 0o001, 0o777}).Draw(t, "perm"),
			Flag: rapid.SampledFrom([]string{"", "", "", "", "", "", "cont", "nul"}).Draw(t, "flag")})
	}
	// explicit directories: a random subset, the rest stay implicit
	for _, d := range dirs[1:] {
		if rapid.IntRange(0, 2).Draw(t, "explicit") != 0 {
			entries = append(entries, Entry{Path: d, Dir: true, Perm: rapid.SampledFrom([]uint32{0o755, 0o700, 0o750, 0o711}).Draw(t, "dperm")})
		}
	}
	// sometimes the root itself is an entry ("./", "/", "."): a directory that is an entry gets its permission bits too
	if rapid.IntRange(0, 3).Draw(t, "rootentry") == 0 {
		entries = append(entries, Entry{Path: ".", Dir: true, Perm: rapid.SampledFrom([]uint32{0o755, 0o700, 0o750, 0o711, 0o777}).Draw(t, "rootperm")})
	}
	// random order: children before parents allowed
	perm := rapid.Permutation(seq(len(entries))).Draw(t, "order")
	for _, i := range perm {
		e := entries[i]
		if e.Path == "." {
			e.Spell = rapid.SampledFrom([]string{"./", "/", ".", "//", "./."}).Draw(t, "rootspell")
		} else {
			e.Spell = spell(t, e.Path, e.Dir)
		}
		c.Entries = append(c.Entries, e)
	}
	if rapid.IntRange(0, 2).Draw(t, "gated") != 0 {
		c.Order = rapid.SliceOfN(rapid.IntRange(0, 7), 1, 60).Draw(t, "release")
	}
	return c
}

func containsStr(s []string, x string) bool {
	for _, y := range s {
		if x == y {
			return true
		}
	}
	return false
}

func seq(n int) []int {
	s := make([]int, n)
	for i := range s {
		s[i] = i
	}
	return s
}

func classify(c Case, rec *vf.Rec) {
	rec.Class("dest:" + c.Dest)
	seen := map[string]bool{}
	nontrivial := false
	for _, e := range c.Entries {
		if e.Dir {
			prefix := e.Path + "/"
			for p := range seen {
				if strings.HasPrefix(p, prefix) {
					rec.Class("child-before-explicit-parent")
					nontrivial = true
				}
			}
		}
		seen[e.Path] = true
		if e.Spell != e.Path && e.Spell != e.Path+"/" {
			rec.Class("non-clean-spelling")
			nontrivial = true
		}
		if e.Size >= 150*1024-1 {
			rec.Class("size>=150KiB")
			nontrivial = true
		}
		if e.Size > 4*1024*1024 {
			rec.Class("size>4MiB")
		}
	}
	if len(c.Entries) > 81 {
		rec.Class("entries>81")
	}
	if len(c.Order) > 0 {
		rec.Class("gated-schedule")
	}
	if nontrivial {
		rec.NonTrivial()
	}
}

func TestTree(t *testing.T) {
	vf.Check(t, "tree", func(rt *rapid.T, rec *vf.Rec) {
		c := genCase(rt, false)
		rec.Step(c)
		classify(c, rec)
		excludedDirs = 0
		sig, msg, out := check(c)
		rec.Count("gated-destination-calls", out.gatedCalls)
		for i := 0; i < excludedDirs; i++ {
			rec.Excluded(knownLostMode)
		}
		if sig != "" {
			rec.Failf(rt, sig, "%s", msg)
		}
	})
}

func TestManyEntries(t *testing.T) {
	vf.Check(t, "many", func(rt *rapid.T, rec *vf.Rec) {
		c := genCase(rt, true)
		if c.Dest != "default" && rapid.Bool().Draw(rt, "holdall") {
			c.HoldAll = true
			c.Order = nil
			for i := range c.Entries {
				// only small entries: a big one is written by the reader itself, which would then be the one parked at the gate
				if c.Entries[i].Size >= 150*1024-1 {
					c.Entries[i].Size = 100 + i
				}
			}
			rec.Class("hold-all-writers")
		}
		rec.Step(c)
		classify(c, rec)
		rec.NonTrivial()
		sig, msg, out := check(c)
		rec.Count("gated-destination-calls", out.gatedCalls)
		if out.maxHeld > 81 {
			rec.Class("more-than-81-writers-held")
		}
		if out.maxHeld >= 81 {
			rec.Class("81-writers-held")
		}
		rec.Count("max-writers-held", out.maxHeld)
		if sig != "" {
			rec.Failf(rt, sig, "%s", msg)
		}
	})
}

func TestEscape(t *testing.T) {
	vf.Check(t, "escape", func(rt *rapid.T, rec *vf.Rec) {
		c := genCase(rt, false)
		c.Order = nil
		c.Escape = rapid.SampledFrom([]string{"../x", "a/../../x", "../../x", "./../x", "a/b/../../../x", ".."}).Draw(rt, "escape")
		c.EscapeAt = rapid.IntRange(0, len(c.Entries)).Draw(rt, "at")
		rec.Step(c)
		rec.NonTrivial()
		sig, msg, _ := check(c)
		if sig != "" {
			rec.Failf(rt, sig, "%s", msg)
		}
	})
}

func TestReplayAll(t *testing.T) {
	for _, leg := range []string{"tree", "many", "escape"} {
		leg := leg
		t.Run(leg, func(t *testing.T) {
			vf.Replay(t, leg, func(steps []json.RawMessage) (string, string) {
				for _, raw := range steps {
					var c Case
					if err := json.Unmarshal(raw, &c); err != nil {
						return "bad-replay", err.Error()
					}
					for rep := 0; rep < 5; rep++ {
						if sig, msg, _ := check(c); sig != "" {
							return sig, msg
						}
					}
				}
				return "", ""
			})
		})
	}
}
