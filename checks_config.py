"""Per-property configuration of the checks: test package, legs (one test function each),
case counts per tier, shards in the thorough tier, evidence texts."""

OS_ASSUMPTION = "oracle = Go os package of go1.23.5 on Linux tmpfs (/dev/shm), umask 0, euid 0 (no permission enforcement)"

CHECKS = {
    "C01": dict(
        pkg="c01", level="exploration",
        rule=("rapid state machine: histories of namespace ops (mkdir, mkdirall, openfile[any flags]+write+close, create, writefile, remove, "
              "removeall, rename, chmod, chtimes, stat, readdir, readfile) with paths drawn relative to the reference tree (existing / missing child / "
              "through a regular file / random; second name same / sibling / inside / ancestor / root), applied to the subject and, with the raw os package, "
              "to a fresh tmpfs directory; after every step success, returned data, whole tree (paths, kinds, perm bits, sizes, bytes), Stat over the depth-3 closure "
              "and Chtimes-set mtimes must agree. non-trivial = >=3 steps, >=1 successful mutation and >=1 failed step that is followed by another step; "
              "distinct = fingerprint of the rendered history"),
        assumptions=[OS_ASSUMPTION, "names {a,b,c}, depth <= 3, payload <= 40 bytes", "root removal/rename not generated (excluded by the statement)"],
        legs=[
            dict(name="mem", run="^TestMem$", quick=400, thorough=1500, shards=8),
            dict(name="kvplain", run="^TestKVPlain$", quick=250, thorough=1000, shards=4),
            dict(name="osfs", run="^TestOSFS$", quick=150, thorough=600, shards=4),
        ],
    ),
}
