"""Per-property configuration of the checks: test package, legs (one test function each),
case counts per tier, shards in the thorough tier, evidence texts."""

OS_ASSUMPTION = "oracle = Go os package of go1.23.5 on Linux tmpfs (/dev/shm), umask 0, euid 0 (no permission enforcement)"

CHECKS = {
    "C01": dict(
        pkg="c01", level="exploration",
        rule=("rapid state machine: histories of namespace ops (mkdir, mkdirall, openfile[any flags]+write+close, create, writefile, remove, "
              "removeall, rename, chmod, chtimes, stat, readdir, readfile) with paths drawn relative to the reference tree (existing / missing child / "
              "through a regular file / random; second name same / sibling / inside / ancestor / root), applied to the subject and, with the raw os package, "
              "to a fresh tmpfs directory; after every step success, returned data, whole tree (paths, kinds, perm bits, sizes, bytes), Stat over the depth-3 closure "
              "and Chtimes-set mtimes must agree. non-trivial = >=3 steps, >=1 successful mutation and >=1 failed step that is followed by another step; "
              "distinct = fingerprint of the rendered history"),
        assumptions=[OS_ASSUMPTION, "names {a,b,c}, depth <= 3, payload <= 40 bytes", "root removal/rename not generated (excluded by the statement)"],
        legs=[
            dict(name="mem", run="^TestMem$", quick=400, thorough=1500, shards=8),
            dict(name="kvplain", run="^TestKVPlain$", quick=250, thorough=1000, shards=4),
            dict(name="osfs", run="^TestOSFS$", quick=150, thorough=600, shards=4),
        ],
    ),
    "C02": dict(
        pkg="c02", level="exploration",
        rule=("rapid state machine over 1..3 handle slots on one regular file (and a directory) present in the subject and, as *os.File twins, in a tmpfs directory: "
              "open(any access x APPEND x TRUNC x CREATE x EXCL), read(n), readat(n,off), write, writeat, seek(any whence incl. invalid), truncate, stat, close; "
              "n in 0..48 (5%: 600/5000), offsets/sizes from -2 to len+12. Per call n, bytes and success are compared with the os.File twin (EOF normalised as io.Reader/io.ReaderAt allow); "
              "after every call the file's bytes (fresh ReadFile) and the offset of every open handle must agree. non-trivial = a read on one handle after a size-changing call on another handle, "
              "or a call made after a failed call; distinct = fingerprint of the action history"),
        assumptions=[OS_ASSUMPTION, "keyvalue.FS over a plain Store hands each handle a snapshot copy by design, so that subject runs the single-handle subset"],
        legs=[
            dict(name="mem", run="^TestMem$", quick=600, thorough=2500, shards=12),
            dict(name="kvplain", run="^TestKVPlain$", quick=300, thorough=1500, shards=4),
        ],
    ),
    "C03": dict(
        pkg="c03", level="exploration",
        rule=("rapid state machine: histories from the C01 alphabet INCLUDING removing/renaming the root, renaming into a descendant and creating below regular files, on mem.FS, "
              "keyvalue.FS over a plain map store, mount.FS (root + mount at a + nested mount at a/b), Sub(mem,a) and Sub(mount,a/b). After every step, successful or failed, on every "
              "constituent FS: root exists and is a directory; for every path of the depth-4 closure (121 paths) that Stat or Open accepts the parent is a directory that lists it; every "
              "listed entry can be Stat'ed and opened with agreeing kinds; no duplicates; every call returned within the watchdog; (plain store) every stored key is reachable by listings. "
              "Handle steps (hopen/hwrite/htrunc/hchmod/hclose on 2 slots) keep handles open across later namespace operations, a third of the steps then aim at the open handle's path or its directory; the stale legs build histories around one handle that outlives its path. Directory handles are opened as well and read in pages (hreaddir, page sizes 1, 2, 3, all) while their children change; the dirpage legs script exactly that: populate a directory with 2..4 children, open it, interleave ReadDir(n) with removals, renames and additions of children. "
              "On kvplain a quarter of the steps (half of mkdirall / rename / removeall, which also get deep MkdirAll targets) run with the store failing its k-th call (k in 1..8 / 1..14) during the step. non-trivial = history with a successful rename/remove of a directory or an operation whose path runs through a regular file; every stale / dirpage case"),
        assumptions=["names {a,b,c}, depth <= 4", "for Sub views removing/renaming the view's root is not generated (it legitimately removes the base directory of the parent)",
                     "termination observed as: returned within a 10 s watchdog, confirmed by re-running the history alone in a fresh process"],
        legs=[
            dict(name="mem", run="^TestMem$", quick=300, thorough=1200, shards=6),
            dict(name="kvplain", run="^TestKVPlain$", quick=200, thorough=1000, shards=3),
            dict(name="mount", run="^TestMount$", quick=200, thorough=1000, shards=3),
            dict(name="submem", run="^TestSubMem$", quick=100, thorough=600, shards=2),
            dict(name="submount", run="^TestSubMount$", quick=100, thorough=600, shards=2),
            dict(name="stale-mem", run="^TestStaleMem$", quick=400, thorough=4000, shards=2),
            dict(name="stale-kvplain", run="^TestStaleKVPlain$", quick=300, thorough=3000, shards=2),
            dict(name="dirpage-mem", run="^TestDirPageMem$", quick=300, thorough=3000, shards=2),
            dict(name="dirpage-kvplain", run="^TestDirPageKVPlain$", quick=200, thorough=2000, shards=2),
        ],
    ),
    "C05": dict(
        pkg="c05", level="exploration",
        rule=("rapid state machine over the C01 alphabet; every FAILING FS-level call is made on the subject and, with the raw os package, on a tmpfs twin tree; the library error must be "
              "*PathError (single-name ops) / *LinkError (rename, symlink), its path fields must equal the path the os error names expressed relative to the root ('.' for the root, never empty/absolute/inner), "
              "and must match every sentinel (NotExist, Exist, IsDir, NotDir, NotEmpty, Invalid, Closed) the os error matches; an unsupported operation must be a typed ErrNotImplemented naming the caller's path. "
              "Subjects: mem, keyvalue over plain store, os.FS under 1..3 Sub roots, mount.FS with 0/1/2 (nested) mounts, Sub(mem), Sub(Sub(mem)), Sub(mount FS at a mount point); read-only layers (cache, tar) in the layered leg. "
              "non-trivial = a failing call with a path of >=2 elements (through >=1 layer for layered subjects) or a failing MkdirAll/RemoveAll of depth >=2"),
        assumptions=[OS_ASSUMPTION, "Op strings are not compared", "operations that remove/rename a mount point, an ancestor of one, or rename across mounts are not generated (their meaning differs from a single os tree; C06 covers them)",
                     "a history ends silently when success differs between subject and os (that is C01/C06/C07's subject)"],
        legs=[dict(name=k, run="^Test%s$" % n, quick=q, thorough=q * 20, shards=4) for (k, n, q) in [
            ("mem", "Mem", 250), ("minimal", "Minimal", 150), ("kvplain", "KVPlain", 150), ("osfs", "OSFS", 120), ("ossub2", "OSSub2", 80), ("ossub3", "OSSub3", 80),
            ("mount0", "Mount0", 100), ("mount1", "Mount1", 200), ("mount2", "Mount2", 200), ("mountstack", "MountStack", 150), ("submem", "SubMem", 150), ("subsub", "SubSub", 100), ("submountpt", "SubMountPt", 100), ("cache", "CacheLayer", 200), ("tar", "TarLayer", 150)]],
    ),
    "C04": dict(
        pkg="c04", level="exploration",
        rule=("each case = a generated start state (0..6 setup ops) of one subject (mem, keyvalue/plain, keyvalue over a store that has gone offline -- invalid names must be refused before the store is asked --, mount with nested mounts, Sub(mem), Sub(mount), cache, tar -- healthy, over an archive cut inside its last entry, and with a cancelled context (UnarchiveErr set) --, os.FS under a Sub root) and one probe: "
              "a helper (mkdir, mkdirall, openfile[any flags], create, writefile, remove, removeall, chmod, chtimes, chown, chown with -1/-1, stat, lstat, lstatorstat, open, readdir, readfile, sub; rename/symlink with the name in either position) "
              "called with a name that is (60%) a valid path with one defect applied (empty, rooted, trailing slash, empty element, '.' or '..' element, invalid UTF-8, escape towards the sentinel; biased to mount points), "
              "(20%) a fuzzed string over {a b / . \\ : e-acute space}, (20%) a valid odd name (backslash, colon, leading dots, non-ASCII). Validity oracle = io/fs.ValidPath. Invalid: error must match ErrInvalid "
              "(or ErrNotImplemented if the helper is unsupported there for valid names too) and the snapshots of every constituent FS, the os directory and its sentinel sibling must be unchanged. Valid: never EINVAL for "
              "stat/open/mkdir/writefile/readfile/remove, and backslash/colon names create exactly one literal root entry. non-trivial = invalid name whose nearest valid repair exists in the subject, or a valid odd name"),
        assumptions=["'no OS path reached the kernel' is approximated by the unchanged os directory + sentinel sibling", "NUL bytes are not generated"],
        legs=[dict(name=k, run="^Test%s$" % n, quick=q, thorough=q * 10, shards=2) for (k, n, q) in [
            ("mem", "Mem", 400), ("kvplain", "KVPlain", 200), ("mount2", "Mount2", 500), ("submem", "SubMem", 300), ("submountpt", "SubMountPt", 300),
            ("cache", "Cache", 200), ("tar", "Tar", 150), ("kvoffline", "KVOffline", 150), ("tarbroken", "TarBroken", 100), ("tarcanceled", "TarCanceled", 100), ("osfs", "OSFS", 200), ("ostop", "TopLevelSub", 400), ("sublenient", "SubLenient", 150)]] + [
            dict(name="fuzznames", run="^$", fuzz="^FuzzNames$", fuzztime="45s", tiers=("thorough",), timeout_thorough=240)],
    ),
    "C07": dict(
        pkg="c07", level="exploration",
        rule=("twin worlds: two identical parents (mem; mount.FS with a mount at a/b; os.FS; an Open-only FS; a Sub view of mem) are built from the same generated setup; a directory dir of the tree is drawn "
              "(including '.', a mount point, a directory above or inside a mount); then a rapid state machine applies each generated op (C01 alphabet) at name through Sub(parent, dir) in world 1 and at dir/name directly "
              "in world 2; results (success, data, entries, info, sentinel class, error type, error paths after joining dir) and the snapshots of every constituent FS of both worlds must be equal after every step. "
              "non-trivial = dir != '.'"),
        assumptions=["symbolic links are not created (the statement excludes them)", "for MkdirAll/RemoveAll error paths only the sentinel class and type are compared"],
        legs=[dict(name=k, run="^Test%s$" % n, quick=q, thorough=q * 10, shards=2) for (k, n, q) in [
            ("mem", "Mem", 250), ("mount", "Mount", 250), ("osfs", "OSFS", 120), ("openonly", "OpenOnly", 120), ("brokenlist", "BrokenList", 120), ("subsub", "SubSub", 150)]],
    ),
    "C06": dict(
        pkg="c06", level="exploration",
        rule=("route leg: a configuration of 0..4 mount points from {a, ab, b, a/b, a/b/c, ab/a} (nested ones inside the outer mount), each a distinct seeded mem.FS, built twice; rapid state machine over the C01 alphabet plus Open "
              "on paths of depth <=4 over {a,ab,b,c}: an independent longest-whole-element-prefix router in the harness selects (FS, rest); Mount(path) is evaluated 8 times (sync.Map iteration orders) and must agree; the op runs through "
              "mount.FS in world 1 and directly on the selected FS at rest in world 2; results and the snapshots of ALL constituent file systems must be equal. Renames are routed per name; a cross-mount rename must either move a regular "
              "file (same bytes and mode at the destination only) or fail leaving everything unchanged, directories => ErrNotImplemented. addmount leg: sequences of mkdir/file/AddMount vs a model (valid non-root existing directory, not yet a "
              "mount point) incl. MountPoints(). concurrent leg: 2..8 goroutines AddMount the same point with the root FS's Open gated so the first arriver is held inside the check-then-store window. "
              "non-trivial = a path below the longer of two prefix-related mount points, or a cross-mount rename, or >=2 AddMount attempts with a refusal"),
        assumptions=["mount-table iteration orders are sampled (Go randomises sync.Map.Range), not enumerated", "the concurrent leg owns only the window around the root FS Open call inside addMount; the rest is free-running (and run under -race in thorough)"],
        legs=[
            dict(name="route", run="^TestRoute$", quick=500, thorough=4000, shards=8),
            dict(name="addmount", run="^TestAddMount$", quick=300, thorough=3000, shards=2),
            dict(name="concurrent", run="^TestConcurrentAddMount$", quick=60, thorough=400, shards=2),
            dict(name="crossfault", run="^TestCrossFault$", quick=30, thorough=300, shards=2),
            dict(name="concurrent-race", run="^TestConcurrentAddMount$", thorough=200, shards=1, race=True, tiers=("thorough",), env={"VERIF_LEG_SUFFIX": "-race"}),
        ],
    ),
    "C08": dict(
        pkg="c08", level="fault_enumeration",
        rule=("each case = inner full FS (mem.FS or os.FS on tmpfs) + generated start state (0..6 setup ops) + one helper call with arguments from the C01 alphabet; inside the case EVERY subset of the optional interfaces that "
              "helper's dispatch inspects and the inner FS implements is enumerated (generated mask types, 2^k, k<=5): the helper on the mask must give the same result (success, data, sentinel class) and final snapshot as on the full FS, "
              "or fail with ErrNotImplemented leaving the snapshot unchanged; then, for every primitive call index of that fault-free run (FS methods, Open, and Write/Close of files the fallback opened for writing), the run is repeated with "
              "that call failing: the helper must return an error, or (e.g. io/fs.ReadFile ignoring a failed size hint) its result and final state must equal the full ones. filehelpers leg: every *File helper on a file exposing only fs.File "
              "must return an ErrNotImplemented *PathError and change nothing. non-trivial = a proper subset on which the fallback made >= 2 primitive calls"),
        assumptions=[OS_ASSUMPTION, "files handed out by a mask expose all optional file interfaces (forwarded through the file helpers)", "a failing Close is injected only for files opened for writing"],
        legs=[
            dict(name="mem", run="^TestMem$", quick=300, thorough=3000, shards=6),
            dict(name="osfs", run="^TestOSFS$", quick=720, thorough=6000, shards=6, quick_shards=6),
            dict(name="filehelpers", run="^TestFileHelpers$"),
        ],
    ),
    "C16": dict(
        pkg="c16", level="exploration",
        rule=("each case = a subject (mem, keyvalue/plain, mount.FS with a child that is a mount point, Sub(mem), cache, tar, os.FS), a directory ('.' or 'd') with 0..40 children of mixed kinds created in a random order "
              "(os.FS: 1 in 10 cases 200..300 children, beyond getdents batching) and a sequence of 1..8 page sizes from {1,2,3,7,N-1,N,N+1,10^6} mixed with {0,-1}. ReadDir by name must list every child once, sorted, with "
              "IsDir/Type/Info agreeing with Stat (mount-point child: name and kind); ReadDir of a regular file must match ErrNotDir; paged reads on one handle must deliver a permutation without duplicates, never (empty,nil) for n>0, "
              "io.EOF exactly when nothing remains, n<=0 on a fresh handle returns everything with nil; after a mid-way n<=0 only 'nil/EOF error, no panic' is asserted. non-trivial = >=2 children and >=2 positive page sizes"),
        assumptions=["directories are not mutated between pages", OS_ASSUMPTION],
        legs=[dict(name=k, run="^Test%s$" % n, quick=q, thorough=q * 10, shards=2) for (k, n, q) in [
            ("mem", "Mem", 250), ("kvplain", "KVPlain", 150), ("mount", "Mount", 150), ("mountnested", "MountNested", 100), ("submem", "SubMem", 100), ("cache", "Cache", 150), ("tar", "Tar", 100), ("osfs", "OSFS", 100)]],
    ),
    "C17": dict(
        pkg="c17", level="exploration",
        rule=("closed legs (7 subjects: mem, keyvalue/plain, mount, Sub, cache, tar, os.FS): a handle kind (read-only, write-only, read-write, directory) is opened, 0..3 methods are used, the handle is closed and then ALL of "
              "Read, ReadAt, Write, WriteAt, Seek, Stat, ReadDir, Truncate, Chmod, Sync, Close are called in a generated order: each must return a non-nil error without panicking, and must match ErrClosed wherever the same call on a "
              "closed *os.File twin does (methods the handle never had answer through the helper's ErrNotImplemented). siblings leg: two handles on one file; generated read/write/seek/close/reopen on the first; after every step the second "
              "keeps the offset of its os twin and stays valid. resurrect leg: a write handle is opened, the file is removed / renamed / RemoveAll'ed, then write/writeat/truncate/chmod/sync/close go through the old handle: Stat(old) must stay "
              "not-exist and the root must not list it. non-trivial: every closed/resurrect case; sibling cases with a close"),
        assumptions=[OS_ASSUMPTION],
        legs=[dict(name="closed-" + k, run="^TestClosed$/^%s$" % k, quick=60, thorough=600, shards=1) for k in ["mem", "kvplain", "mount", "submem", "cache", "tar", "osfs"]] + [
            dict(name="siblings", run="^TestSiblings$", quick=300, thorough=3000, shards=2),
            dict(name="resurrect", run="^TestResurrect$", quick=200, thorough=2000, shards=2),
            dict(name="resurrectdir", run="^TestResurrectDir$", quick=200, thorough=2000, shards=2),
        ],
    ),
    "C19": dict(
        pkg="c19", js_pkg="c19", level="exploration",
        rule=("rapid state machine over a pool of blobs: one origin of length 0..64 plus derived views and slices; steps View, Slice, Set, Grow, Truncate, Len, Bytes called directly or through the blob.* helpers with arguments "
              "from -2 to len+2 including start>end, view of view, Set from an own view and Set of a blob into itself. Model = Go byte slices in which views share the parent's backing array and Slice/Bytes are copies; after EVERY step "
              "the Len and Bytes of every live blob are compared with the model. Out-of-range arguments must not panic, must leave every blob unchanged and (byte-slice implementation) must return an error; every call runs under a watchdog. "
              "After a Grow/Truncate of a member of an alias group the other members are retired (aliasing across a resize is not pinned). Set whose source overflows the destination is not generated (the implementations legitimately differ). "
              "The identical machine runs natively on blob.Bytes and under GOOS=js GOARCH=wasm with node on blob.Bytes and idbblob.Blob. non-trivial = a view of a view, a Set within one alias group, or an out-of-range call"),
        assumptions=["node v20 + GOROOT/misc/wasm/go_js_wasm_exec run the wasm test binary", "a blob exposing only Bytes/Len is not a subject (the helper fallbacks work on copies by design)"],
        legs=[
            dict(name="bytes", run="^TestBytes$", quick=3000, thorough=20000, shards=8, env={"VERIF_WATCHDOG_MS": "3000"}),
            dict(name="idb-js", run="^TestIDB$", quick=700, thorough=5000, shards=4, js=True, env={"VERIF_WATCHDOG_MS": "3000", "VERIF_LEG_SUFFIX": "-js"}, timeout_quick=300),
            dict(name="fuzzbytes", run="^$", fuzz="^FuzzBytes$", fuzztime="40s", tiers=("thorough",), timeout_thorough=240),
            dict(name="bytes-js", run="^TestBytes$", quick=300, thorough=3000, shards=1, js=True, env={"VERIF_WATCHDOG_MS": "3000", "VERIF_LEG_SUFFIX": "-js"}, timeout_quick=300),
        ],
    ),
    "C18": dict(
        pkg="c18", level="exploration",
        rule=("sequences of <=8 calls over keys {a,b,c}: Get, GetHandler, Set (incl. delete), SetHandler with handlers that succeed / return an error / call txn.Abort() / both, and Commit or Abort finishing a transaction (several "
              "transactions per sequence, each finished at most once by the caller), on the in-memory store's real transactions (verif hook) and on the serial fallback over a plain map store. Map model: Commit returns one result per call, "
              "in call order, ids equal to the ids the calls returned and never reused; each Get returns the value of earlier Sets of this and of earlier transactions (ErrNotExist if none); a handler error becomes that op's Err; calls after an "
              "abort change nothing; afterwards a fresh transaction opens and commits within the watchdog and the store read back directly equals the model. isolation leg: 1-3 writer and 1-3 reader transactions parked inside handlers by the harness: "
              "never two inside at once, no torn read, no torn final state. refused leg: T1 open on the real in-memory store (wrapped so that the next 1, 2, 3 or all Transaction() calls fail) has read k1; a second caller asks keyvalue.TransactionOrSerial or runs an FS write / remove / rename of k2 and uses whatever it is handed; T1 then reads k1 and k2 again: all three reads are the initial value. Handlers of kind 'nested' call Get on the transaction they are handed: that call is one more call with its own id and result, in call order. non-trivial = >=3 calls with >=1 Set; every isolation case"),
        assumptions=["what Commit returns for an aborted transaction is not pinned (only that the store is unchanged by later calls and stays usable)", "a second explicit Commit/Abort by the caller is API misuse and not generated"],
        legs=[
            dict(name="mem", run="^TestMemTxn$", quick=2000, thorough=20000, shards=4),
            dict(name="serial", run="^TestSerialTxn$", quick=2000, thorough=20000, shards=4),
            dict(name="isolation", run="^TestIsolation$", quick=100, thorough=1000, shards=4),
            dict(name="stale", run="^TestStale$", quick=60, thorough=400, shards=4, quick_shards=2),
            dict(name="refused", run="^TestRefused$", quick=200, thorough=2000, shards=2),
        ],
    ),
    "C14": dict(
        pkg="c14", level="fault_enumeration",
        rule=("each case = a generated history of <=12 steps (C01 namespace alphabet incl. root removal, plus handle steps hopen/hread/hwrite/htrunc/hstat/hreaddir/hclose on two slots) on keyvalue.FS over (plain) the plain map Store "
              "reached through the serial fallback transaction and (reject) the real in-memory store behind a TransactionStore wrapper that rejects one operation (does not apply it, reports OpResult.Err). A fault-free dry run counts the store calls "
              "(Get, Set, lazy Data(), lazy ReadDirNames()); then the history is re-run once per call index (all of them, at most 200) with that call failing with an error that matches no sentinel. Oracle: the FS operation during which the fault fires "
              "returns an error -- always if the failing call is a Set, otherwise unless its result equals the fault-free result; nothing panics or hangs during or after; at the end every key the store really holds is found by a fresh Stat/ReadFile with the same "
              "kind/perm/bytes and everything the FS lists is in the store. Construction is judged as an operation too: per case, keyvalue.NewFS is run with store call 1..4 failing over a fresh store and over the store the fault-free history left; it fails, or hands out a file system whose root answers and which shows the tree the store holds. non-trivial = >=3 faults fired in a history with >=1 mutating step"),
        assumptions=["one failing store call per run", "the plain store is lazy (Data/ReadDirNames evaluated on first use) like examples/s3, which cannot be built offline"],
        legs=[
            dict(name="plain", run="^TestPlain$", quick=150, thorough=1500, shards=6, quick_shards=6),
            dict(name="reject", run="^TestReject$", quick=150, thorough=1500, shards=6, quick_shards=6),
            dict(name="locking", run="^TestLocking$", quick=150, thorough=1500, shards=6, quick_shards=6),
        ],
    ),
    "C10": dict(
        pkg="c10", level="exploration",
        rule=("each case = a generated source tree (mem.FS; <=3 directories, <=6 files with sizes from {0,1,511,512,513,1024,1500,5000} around the 512-byte copy buffer, assorted modes), a RetainData policy (default/never/by name/by size), "
              "a cache store (mem.FS or one exposing only OpenFile+Mkdir) and a source flavour (handles with or without Seek); then a rapid state machine of open(name) into 3 handle slots (files, directories, missing names; repeated and interleaved), "
              "read(n), seek, handle stat, paged handle readdir, close, closedops (Close, then Stat, Read or ReadDir and a second Close on the closed handle: cache and source must both refuse or both answer), Stat(name), ReadDir(name); an eighth of the names are invalid spellings of served names. Every call is mirrored on a twin handle / call on an identical source: names, kinds, sizes, modes, bytes and EOF position must agree; a counting wrapper proves that "
              "an Open of an already cached retained file, and reads through handles of such later opens, never reach the source. non-trivial = a retained file >512 B opened again after caching, or a directory read in >=2 pages"),
        assumptions=["the source does not change (the cache's documented precondition)", "modification times are not compared"],
        legs=[dict(name="cache", run="^TestCache$", quick=2400, thorough=12000, shards=8)],
    ),
    "C11": dict(
        pkg="c11", level="fault_enumeration",
        rule=("faults leg: each case = (file size from {0,1,511,512,513,1024,1600,5000}, file at the root or two directories deep, cache store exposing OpenFile+Mkdir or also Remove+Rename, source handles with/without Seek, 1..3 re-opens); a fault-free dry run counts the "
              "source Read calls and the cache-store calls (Open, OpenFile, Mkdir, Write, Close of the written file, Stat/ReadDir of the MkdirAll fallback); then one run per call index with that call failing: the open must not return success with bytes that differ from the source, "
              "a failed create/write/close/mkdir of the fill must make Open fail, and every later fault-free open returns either an error or the complete bytes. concurrent leg: 2..4 goroutines open the same uncached file; every Read of the source is gated by the harness, "
              "which pauses the copy at every chunk boundary, lets the others run (settle 0..400us), and checks that never two source reads are in flight, that all opens return, and that every successful open reads the complete bytes. "
              "twofiles leg: two goroutines open two different uncached files; every source Read parks before it reads and after it has filled the buffer, released one at a time in a drawn order; each open, each later open and the store's copies hold the right file's bytes. non-trivial = >=2 faults fired in a case; every concurrent case"),
        assumptions=["waiters blocked on the per-path sync.Mutex cannot be observed directly: the harness sleeps a drawn settle time before releasing the paused copy (affects which schedule is explored, never the verdict)"],
        legs=[
            dict(name="faults", run="^TestFaults$", quick=120, thorough=1200, shards=4, quick_shards=4),
            dict(name="concurrent", run="^TestConcurrent$", quick=150, thorough=600, shards=8, quick_shards=8),
            dict(name="concurrent-race", run="^TestConcurrent$", thorough=150, shards=1, race=True, tiers=("thorough",), env={"VERIF_LEG_SUFFIX": "-race"}),
            dict(name="twofiles", run="^TestTwoFiles$", quick=300, thorough=3000, shards=2),
        ],
    ),
    "C12": dict(
        pkg="c12", level="exploration",
        rule=("each case = a generated logical tree (<=6 directories up to depth 4, files with sizes from {0,1,2,17,100,511,512,513,4000} and, 10% of files, the 150 KiB thresholds {150Ki-1,150Ki,150Ki+1}; 1 in 10 cases one file of 4 MiB+1) written as a tar archive with "
              "entries in a random order (children before parents allowed), a random subset of directories left implicit, every name spelled through a random equivalent (x, ./x, /x, a//b, a/./b, trailing slash on directories), random permission bits; destination = default, explicit mem.FS, "
              "a wrapper exposing only OpenFile+Chmod+Mkdir, or os.FS on tmpfs, each behind a gate whose blocked destination calls (OpenFile, Mkdir, Chmod, MkdirAll, Write) are released one at a time in a rapid-drawn order (schedule of the background writer goroutines). After Done(): UnarchiveErr()==nil and the "
              "snapshot of the tar FS and of the destination equal the model (files: bytes+perm, explicit dirs: perm, ancestors: kind, nothing else). many leg: 85..120 files so that more than the 81 small buffers are requested while writes are gated. escape leg: one entry named ../x, a/../../x, .. etc. at a random position: "
              "UnarchiveErr()!=nil, nothing derived from that name is created, the os root's sentinel sibling is untouched. non-trivial = a child before its explicit parent, a non-clean spelling, or a size >= 150 KiB-1"),
        assumptions=["//go:debug tarinsecurepath=1 so that escaping names reach hackpadfs", "gate quiescence is detected by a short settle (affects which schedule is explored, never the verdict)", "entry names are distinct after normalisation"],
        legs=[
            dict(name="tree", run="^TestTree$", quick=800, thorough=2400, shards=8, quick_shards=8, timeout_quick=400),
            dict(name="many", run="^TestManyEntries$", quick=10, thorough=80, shards=4, timeout_quick=400),
            dict(name="escape", run="^TestEscape$", quick=80, thorough=800, shards=4),
        ],
    ),
    "C13": dict(
        pkg="c13", level="fault_enumeration",
        rule=("stream leg: generated archives (1..6 entries, sizes around the 512-byte block and, sometimes, one entry >150 KiB) fed through a harness-owned reader in 512-byte blocks that parks at a generated block, with a generated fault there (none/truncate/reader error/cancel), "
              "optionally one entry's destination write held so that the file is visibly incomplete, and 1..8 Open calls launched while the stream is parked, right after the fault, or after Done (entries not yet reached / being written / written, directories, missing names). "
              "cuts leg: per generated archive EVERY cut block x {truncate, error, cancel}. destfaults leg: per generated archive a failure at EVERY destination call index. hooked leg: tar's own goroutines parked at the verifPoint markers (before the unpack error is stored, before a file is announced) "
              "while every entry is opened. stress leg: the same cases free-running, 60 repetitions each. pubsub / bufferpool legs: model-based sequences on the exported components (Wait returns iff emitted or cancelled; outstanding <= max, right size, no starvation). "
              "Oracle: an Open that succeeds on a regular entry reads exactly the entry's bytes (also after Done); Done and every Open return within the watchdog once the stream ended, failed or was cancelled; a fault-free stream yields no error. neighbours leg: 0..3 other ReaderFS parked at a drawn block inside a 154 KiB..5 MiB entry (within or beyond the first 150 KiB) while a further ReaderFS gets a complete one-entry archive (0 B..4 MiB): Done closes, the entry reads back complete. non-trivial = an Open issued while something was parked; every cuts/destfaults/hooked/stress case"),
        assumptions=["'eventually returns' is observed as 'returned within the watchdog'", "schedules are owned at the archive reader, at destination calls and at three verifPoint markers inside tar; everything else is free-running"],
        legs=[
            dict(name="stream", run="^TestStream$", quick=250, thorough=3000, shards=6, quick_shards=4),
            dict(name="cuts", run="^TestCuts$", quick=25, thorough=300, shards=6),
            dict(name="destfaults", run="^TestDestFaults$", quick=40, thorough=500, shards=4),
            dict(name="hooked", run="^TestHooked$", quick=200, thorough=2500, shards=2),
            dict(name="stress", run="^TestStress$", quick=40, thorough=600, shards=8),
            dict(name="pubsub", run="^TestPubsub$", quick=150, thorough=1500, shards=2),
            dict(name="pubsubburst", run="^TestPubsubBurst$", quick=30, thorough=300, shards=4),
            dict(name="bufferpool", run="^TestBufferPool$", quick=100, thorough=1000, shards=2),
            dict(name="neighbours", run="^TestNeighbours$", quick=60, thorough=600, shards=2),
            dict(name="manyfail", run="^TestManyFail$", quick=40, thorough=400, shards=2),
        ],
    ),
    "C15": dict(
        pkg="c15", level="exploration",
        rule=("programs = 2..3 threads x 1..3 operations (mkdir, mkdirall, touch, exclusive create, remove, rename, stat, chmod, and per-thread handle ops hopen/hwrite/hread/htrunc/hclose) over the paths {a, b, a/b, a/c} after a generated setup. "
              "serial leg: the program runs on keyvalue.FS over the REAL in-memory store (verif hook) under a cooperative scheduler whose yield points sit before every store transaction and before every blob operation made outside a transaction; 12 rapid-drawn schedules per program; "
              "the outcome (every operation's result + final tree) must be among the outcomes of all program-order-respecting sequential orders (<=1680, computed on fresh mem.FS instances). dfs leg: per program EVERY schedule with <=2 pre-emptions. independence leg: threads confined to disjoint subtrees, "
              "every <=2-pre-emption schedule must give exactly the solo results and the union tree. free leg: the same programs on real goroutines, 20 repetitions (under the race detector in the thorough tier): no panic, no deadlock, no race report. "
              "Known findings are listed per CLASS = (operation kinds of a cross-thread pair, strongest path relation same / parent-child / siblings), 60 classes, each with a recorded witness program + schedule that its regression probe replays (harness/c15/witnesses.json): found by complete enumeration of all (1 operation || 1 operation) and (1 operation || 2 operations) programs over 5 set-ups under every <=2-pre-emption schedule (446k programs, 9.5M schedules). The serializability legs construct programs none of whose cross-thread pairs falls in a listed class (every next operation is drawn from the compatible candidates); the other ~100 same-path / ancestor classes and all sibling classes are searched. storm leg: 2..4 goroutines, each with its own handle on one file, repeat a generated body of Truncate / Write / read operations 300 times on real cores, 3 repetitions (windows inside one blob operation, below the scheduler's granularity): everything finishes, nothing panics, the file stays usable and Stat size == bytes read. dirstorm leg: 2..4 goroutines (>=1 mutator, >=1 observer), bodies of 1..4 operations repeated 300 times, 3 repetitions; mutators only rewrite records of entries that exist throughout (a/b, a/c, a/d, a/d/e) or create / remove a/v; every listing must name the permanent children, Stat of them succeeds, a/c keeps its bytes, Remove of the non-empty directories fails. observers leg: thread 0 issues ONE mutating operation (mkdir, mkdirall, create, exclusive create, remove, rename, chmod, open with O_CREATE / O_TRUNC, over {a, b, a/b, a/c, b/c, b/c/d} and six set-ups), 1..2 other threads only observe (1..3 of stat, readdir, cat over {., a, b, a/b, a/c}); EVERY schedule with <=2 pre-emptions; since observers change nothing, a non-sequential outcome is an intermediate state of the one operation (or a torn listing) made visible, identified by operation, what its paths hold in the set-up state, and whether a listing observes. "
              "non-trivial = the program has a cross-thread pair on related paths (incl. siblings) of which one mutates; every independence/free case; observers: the mutator's path exists or it creates"),
        assumptions=["interleavings are explored at store-transaction and blob-operation granularity (the in-memory store serialises whole transactions under its mutex, so these are the distinguishable ones)", "the race detector leg depends on the runtime's scheduling (sampled)"],
        legs=[
            dict(name="serial", run="^TestSerializable$", quick=250, thorough=3000, shards=6),
            dict(name="dfs", run="^TestSerializableDFS$", quick=60, thorough=800, shards=8),
            dict(name="independence", run="^TestIndependence$", quick=40, thorough=500, shards=4),
            dict(name="observers", run="^TestObservers$", quick=480, thorough=6000, shards=16),
            dict(name="observers-canon", run="^TestObserversCanonical$"),
            dict(name="free", run="^TestFreeRunning$", quick=80, thorough=800, shards=2),
            dict(name="storm", run="^TestBlobStorm$", quick=60, thorough=600, shards=4, quick_shards=2),
            dict(name="dirstorm", run="^TestDirStorm$", quick=60, thorough=600, shards=4, quick_shards=2),
            dict(name="free-race", run="^TestFreeRunning$", quick=120, quick_shards=4, thorough=300, shards=8, race=True, env={"VERIF_LEG_SUFFIX": "-race"}),
        ],
    ),
    "C09": dict(
        pkg="c09", level="exploration",
        rule=("pure leg (verif hook: toOSPath/fromOSPath with explicit GOOS and separator): root = 0..3 Sub calls over {tmp, root, rootx, a, tmp/root, a/b}; volume from {'', C:, D:, \\\\host\\share} under the windows convention; both (linux,'/') and (windows,'\\'); "
              "names valid (depth 1..3), odd-valid (backslash, colon, '.') and invalid; OS-path candidates assembled from the root or a look-alike of it (rootx), its parent, other volumes, then 0..4 elements from {a,b,root,x.y,.,..,''} with optional trailing separator. "
              "Oracle: (1) a valid name maps to volume+sep+elements of root and name joined by sep (computed by splitting), an invalid one to ErrInvalid; (2) FromOSPath(ToOSPath(n)) == n; (3) for an absolute candidate FromOSPath fails with ErrInvalid or returns a valid FS path r with "
              "ToOSPath(r) equal to the lexically cleaned candidate, which lies inside the root (a small Windows volume parser in the harness plays filepath.VolumeName). live leg: the exported ToOSPath/FromOSPath on this host: relative paths refused, same reverse/round-trip oracle. "
              "liveops leg: two identical scratch directories (whose own names hold ':', '\\' and a space), below them a chain of 0..2 directories drawn from unusual valid names; in one 1..7 operations (mkdir, mkdirall, writefile, symlink, rename, remove, chmod, chtimes; names of depth 1..3 from a per-case alphabet) go through an os.FS built by 1..3 Sub calls, in the other through the raw os package at filepath.Join(root, name); success and, via Lstat/Readlink, both trees (a link's target relative to its own root) and what reading each entry returns are compared after every step; non-trivial there = at least two operations. "
              "thorough adds native fuzzing over (convention, sub, volume, name, candidate). non-trivial = an unclean candidate (.., empty element, trailing separator) or a valid name under >=1 Sub root"),
        assumptions=["the relative-path guard lives in the exported wrapper (filepath.IsAbs of the host), so relative candidates are only checked in the live leg", "errors coming back from the OS naming the caller's path are covered by C05's os.FS subjects under 1-3 Sub roots"],
        legs=[
            dict(name="pure", run="^TestPure$", quick=5000, thorough=50000, shards=8),
            dict(name="live", run="^TestLive$", quick=1000, thorough=10000, shards=2),
            dict(name="liveops", run="^TestLiveOps$", quick=150, thorough=1500, shards=8, quick_shards=4),
            dict(name="fuzzpaths", run="^$", fuzz="^FuzzPaths$", fuzztime="45s", tiers=("thorough",), timeout_thorough=240),
        ],
    ),
    "C20": dict(
        pkg="c20", level="exploration",
        rule=("deviant file systems = mem.FS behind a wrapper applying ONE deviation from the grammar (operation) x (kind) x (trigger): operations mkdir, mkdirall, openfile, open, remove, rename, stat, chmod, chtimes and the handle methods read, readat, write, writeat, seek, truncate, readdir, stat, close; "
              "kinds: silently do nothing, apply twice, drop the entry, leave the source behind, flipped permission bits, wrong size, wrong name, wrong bytes, wrong n, early EOF, wrong error kind, wrong error path, ignore O_TRUNC, drop/duplicate/mis-kind a directory entry; triggers: always, k-th call (1..3), names containing foo / bar. "
              "Each evaluation re-executes the compiled test binary running fstest.FS + fstest.File against the deviant. The wrapper also RECORDS every call the suite makes and what it got back (error class and paths, n, bytes, FileInfo, entries), per scenario; the same recorder runs on the reference. "
              "A deviant is non-trivial iff some scenario's recorded results differ from the reference's (as multisets; scenarios whose goroutines / parallel sub-tests share one FS only count for triggers that do not depend on a call count); then the suite must exit != 0. "
              "triggers also include ARGUMENT CLASSES per operation (OpenFile by access mode and by O_CREATE/O_EXCL/O_TRUNC/O_APPEND; Truncate negative/zero/shrink/grow; Seek by origin and negative offset; ReadAt/WriteAt negative/zero/past-end offset; ReadDir n<=0 / n>0; empty buffers): such a deviant misbehaves only for calls in the class. grammar leg (both tiers, it takes seconds): the whole finite grammar (608 deviants), enumerated completely. Ratchet: every deviant the suite rejected at the pinned commit (harness/c20/expected_killed.txt, 319, identical in three runs at different GOMAXPROCS) must still be rejected; one that no scenario observes any more is reported as C20:unexercised (an edit dropped the scenario or made sub-tests share a table row). reference leg: the suite passes on mem.FS and os.FS at -test.parallel/GOMAXPROCS in {1,16} x {1,16}, repeatedly, with identical recorded behaviour. "
              "non-trivial & distinct = deviants whose recorded behaviour differs"),
        assumptions=["substituting ErrNotImplemented is not a deviation (the suite skips what a file system declares unsupported)", "a deviant whose effect is never observed through the calls the suite makes is counted as trivial, not as a survivor"],
        legs=[
            dict(name="reference", run="^TestReference$"),
            dict(name="grammar", run="^TestGrammar$"),
        ],
    ),
}
