#!/usr/bin/env python3
"""Rewrites the C15:ns:* entries of known_findings.txt from harness/c15/witnesses.json (one entry per listed class)."""
import json
W = json.load(open("/verif/harness/c15/witnesses.json"))
def opstr(o):
    k = o["k"]
    if k == "rename": return "rename(%s,%s)" % (o.get("p"), o.get("p2"))
    if k == "hopen": return "hopen(%s,%#x)" % (o.get("p"), o.get("flag", 0))
    if k == "hwrite": return "hwrite(%r)" % o.get("data", "")
    if k == "htrunc": return "htrunc(%d)" % o.get("n", 0)
    if k in ("hread", "hclose"): return k
    return "%s(%s)" % (k, o.get("p"))
lines = []
for cls in sorted(W):
    c = W[cls]
    prog = " || ".join("[" + " ".join(opstr(o) for o in th) + "]" for th in c["program"]["threads"])
    setup = " ".join(opstr(o) for o in (c["program"].get("setup") or []))
    lines.append("known: property=C15 sig=C15:ns:%s operations of different goroutines in this class (kinds + path relation) are not atomic with respect to each other: every keyvalue operation is several store transactions (look-up, then write; MkdirAll and directory Rename one per level / entry). Witness (harness/c15/witnesses.json): setup [%s] threads %s under schedule %s has a result no sequential order produces. Needs single-transaction operations in keyvalue (redesign), not a small fix" % (cls, setup, prog, c["choices"]))
p = "/verif/known_findings.txt"
out = []
done = False
for l in open(p).read().splitlines():
    if l.startswith("known: property=C15 sig=C15:ns:"):
        if not done:
            out += lines
            done = True
        continue
    out.append(l)
if not done:
    out += lines
open(p, "w").write("\n".join(out) + "\n")
print(len(lines), "C15:ns entries")
