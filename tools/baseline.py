#!/usr/bin/env python3
"""Runs the repository's pinned baseline (guard off) and compares with /root/.vp/BASELINE.json."""
import json, os, subprocess, sys
env = dict(os.environ, GOFLAGS="-mod=mod", GOPROXY="off", GOSUMDB="off", GOTOOLCHAIN="local")
r = subprocess.run("go test -json -vet=off -count=1 -timeout 25m ./...", shell=True, cwd="/repo", env=env, stdout=subprocess.PIPE, stderr=subprocess.STDOUT, text=True)
res = {}
for line in r.stdout.splitlines():
    try:
        e = json.loads(line)
    except Exception:
        continue
    if e.get("Test") and e.get("Action") in ("pass", "fail", "skip"):
        res[e["Package"] + "::" + e["Test"]] = e["Action"]
base = json.load(open("/root/.vp/BASELINE.json"))["stable_pass"]
missing = [t for t in base if res.get(t) != "pass"]
print("baseline tests:", len(base), "passing now:", len(base) - len(missing), "not passing:", len(missing))
for t in missing[:20]:
    print("  ", t, res.get(t))
st = subprocess.run(["git", "-C", "/repo", "status", "--porcelain"], stdout=subprocess.PIPE, text=True).stdout
if "go.sum" in st or "go.mod" in st:
    print("WARNING: go.mod/go.sum touched:", st)
sys.exit(1 if missing else 0)
