#!/usr/bin/env python3
"""Regenerates the seeded-changes table of DESIGN.md from seeded/*/meta.json (between the table header and the next blank line)."""
import json, glob, os, re
rows = []
for d in sorted(glob.glob("/verif/seeded/*/")):
    m = json.load(open(os.path.join(d, "meta.json")))
    esc = lambda s: s.replace("|", "\\|")
    rows.append("| %s | %s | %s | %s |" % (m["id"], m["breaks_property"], esc(m["needs_to_manifest"]), esc("; ".join(m["caught_by"]))))
p = "/verif/DESIGN.md"
s = open(p).read()
head = "| id | breaks | needs to manifest | caught by |\n|---|---|---|---|\n"
i = s.index(head) + len(head)
j = s.index("\n\n", i)
s = s[:i] + "\n".join(rows) + s[j:]
open(p, "w").write(s)
print(len(rows), "rows")
