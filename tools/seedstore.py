#!/usr/bin/env python3
"""Stores a validated seeded change under /verif/seeded/<id>/ (patch.diff, demo_test.go, NOTES.md, meta.json)."""
import json, os, shutil, subprocess, sys
sid, src, prop, needs, caught = sys.argv[1], sys.argv[2], sys.argv[3], sys.argv[4], sys.argv[5:]
dst = os.path.join("/verif/seeded", sid)
os.makedirs(dst, exist_ok=True)
if not os.path.exists(os.path.join(dst, "patch.diff")):
    shutil.copy(os.path.join(src, "seeddemo/patch.diff"), os.path.join(dst, "patch.diff"))
for f in os.listdir(os.path.join(src, "seeddemo")):
    if f.endswith("_test.go") or f == "NOTES.md":
        shutil.copy(os.path.join(src, "seeddemo", f), os.path.join(dst, f))
ok = subprocess.run(["git", "-C", "/repo", "apply", "--check", os.path.join(dst, "patch.diff")]).returncode == 0
meta = {
    "id": sid, "breaks_property": prop, "needs_to_manifest": needs,
    "origin": "independent sub-agent given only the property text and a scratch worktree of /repo",
    "validated": {
        "how": "tools/seedeval.sh: fresh worktree of /repo HEAD; demo passes without the change; with the change go build ./... is clean, the repository's test suite (all packages) passes, the demo fails",
        "applies_to_repo_head": ok, "repo_head": subprocess.run(["git", "-C", "/repo", "rev-parse", "--short", "HEAD"], capture_output=True, text=True).stdout.strip(),
    },
    "caught_by": caught,
    "how_to_run": "git -C /repo apply /verif/seeded/%s/patch.diff && (cd /verif && ./check %s); git -C /repo checkout -- ." % (sid, caught[0].split()[0] if caught else prop),
}
json.dump(meta, open(os.path.join(dst, "meta.json"), "w"), indent=1)
print(sid, "stored; applies:", ok)
