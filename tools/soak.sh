#!/bin/bash
# usage: tools/soak.sh <tier> <seed>...   runs every claimed check at the given seeds and prints everything that is not OK
tier=$1; shift
cd /verif
for seed in "$@"; do
  for id in $(python3 -c "import json;print(' '.join(c['property_id'] for c in json.load(open('MANIFEST.json'))['checks']))"); do
    out=$(./check $id --tier $tier --seed $seed 2>&1); code=$?
    if [ $code -ne 0 ]; then echo "== $id seed=$seed exit=$code"; echo "$out" | grep -av KNOWN-F | cut -c1-400 | tail -5; fi
  done
  echo "seed $seed done"
done
