#!/usr/bin/env python3
"""Regenerates /verif/MANIFEST.json from checks_config.py and manifest_texts.py."""
import json, os, sys
V = os.path.dirname(os.path.dirname(os.path.abspath(__file__)))
sys.path.insert(0, V)
from checks_config import CHECKS
import manifest_texts as T

props = [json.loads(l) for l in open(os.path.join(V, "properties.jsonl"))]
checks, na = [], []
for p in props:
    pid = p["id"]
    if pid in CHECKS and pid in T.CLAIMED:
        c = CHECKS[pid]
        t = T.CLAIMED[pid]
        checks.append({
            "property_id": pid,
            "quick_cmd": "./check %s --tier quick" % pid,
            "thorough_cmd": "./check %s --tier thorough" % pid,
            "evidence_file": "/verif/evidence/%s.json" % pid,
            "replay_cmd_template": "./check %s --replay {path}" % pid,
            "engine": "harness",
            "level_claimed": {"category": c["level"], "text": t["text"], "design_ref": "DESIGN.md section 5, " + pid},
            "level_note": t["note"],
            "technique": t["technique"],
        })
    else:
        na.append({"property_id": pid, "reason": T.NOT_APPLICABLE.get(pid, "check not built yet in this session (planned; see DESIGN.md section 5)")})
m = {
    "version": 1,
    "setup_cmd": "./check --setup",
    "hooks": {
        "guard": "verif",
        "enable": "go test -tags verif (the harness module replaces github.com/hack-pad/hackpadfs with /repo, so every check rebuilds from the working tree)",
        "baseline_off_cmd": "cd /repo && GOFLAGS=-mod=mod GOPROXY=off GOSUMDB=off go test -json -vet=off -count=1 -timeout 25m ./...",
        "source_commits": T.HOOK_COMMITS,
        "add_only": True,
    },
    "engines": [{"name": "harness", "path": "/verif/harness", "serves_properties": [c["property_id"] for c in checks],
                 "kind_free_text": "Go module using pgregory.net/rapid v1.3.0 (state-machine property tests, shrinking) and native go fuzzing in the thorough tier; driven by /verif/check"}],
    "checks": checks,
    "not_applicable": na,
    "notes": T.NOTES,
}
json.dump(m, open(os.path.join(V, "MANIFEST.json"), "w"), indent=1)
print("claimed:", [c["property_id"] for c in checks], "not claimed:", [n["property_id"] for n in na])
