#!/bin/bash
# usage: tools/seedeval.sh <PROP> <source-dir-with-seeddemo> [check-ids...]
# Validates a seeded change in a scratch worktree (baseline passes, demo fails with / passes without), then applies it to
# /repo, runs the given checks (default: the property's own) and reverts. Prints a summary; leaves nothing behind.
set -u
export GOFLAGS=-mod=mod GOPROXY=off GOSUMDB=off GOTOOLCHAIN=local
prop=$1; src=$2; shift 2
checks=${@:-$prop}
wt=/tmp/seedval/$prop
rm -rf $wt; git -C /repo worktree prune; git -C /repo worktree add -q --detach $wt HEAD || exit 2
mkdir -p $wt/seeddemo; cp $src/seeddemo/*_test.go $wt/seeddemo/ 2>/dev/null
cd $wt
demo_without=$(go test -vet=off -count=1 ./seeddemo/ >/dev/null 2>&1 && echo pass || echo FAIL)
if ! git apply $src/seeddemo/patch.diff 2>/tmp/seedval/$prop.applyerr; then echo "$prop: patch does not apply: $(cat /tmp/seedval/$prop.applyerr | head -3)"; cd /; git -C /repo worktree remove --force $wt; exit 3; fi
build=$(go build ./... >/dev/null 2>&1 && echo ok || echo BROKEN)
base=$(go test -vet=off -count=1 $(go list ./... | grep -v seeddemo) >/tmp/seedval/$prop.base 2>&1 && echo pass || echo FAIL)
if [ $base = FAIL ]; then base=$(go test -vet=off -count=1 $(go list ./... | grep -v seeddemo) >/tmp/seedval/$prop.base 2>&1 && echo pass || echo FAIL); fi
demo_with=$(go test -vet=off -count=1 ./seeddemo/ >/dev/null 2>&1 && echo pass || echo FAIL)
cd /; git -C /repo worktree remove --force $wt
echo "$prop: build=$build baseline=$base demo_without_change=$demo_without demo_with_change=$demo_with"
# now against the machinery
if [ -n "$(git -C /repo status --porcelain)" ]; then echo "/repo not clean"; exit 2; fi
git -C /repo apply $src/seeddemo/patch.diff || exit 3
cd /verif
for c in $checks; do
  for tier in ${SEEDEVAL_TIERS:-quick thorough}; do
    out=$(./check $c --tier $tier 2>&1); code=$?
    echo "  check $c $tier: exit=$code $(echo "$out" | grep -a '^VIOLATION' | head -1 | cut -c1-260)"
    [ $code -eq 1 ] && break
  done
done
git -C /repo checkout -- .
