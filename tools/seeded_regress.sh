#!/bin/bash
# Applies every seeded change to /repo in turn, runs the check(s) named in its meta.json (quick tier) and reverts.
cd /verif
for d in seeded/*/; do
  id=$(basename $d)
  checks=$(python3 -c "import json;m=json.load(open('$d/meta.json'));print(m['breaks_property']+' (recorded-as-not-caught)' if m.get('not_caught') else ' '.join(sorted({c.split()[0] for c in m['caught_by']})))")
  if [[ "$checks" == *recorded-as-not-caught* ]]; then echo "$id: recorded as NOT caught (see meta.json / DESIGN.md limits)"; continue; fi
  if [ -n "$(git -C /repo status --porcelain)" ]; then echo "/repo not clean"; exit 2; fi
  if ! git -C /repo apply /verif/$d/patch.diff 2>/dev/null; then echo "$id: PATCH DOES NOT APPLY"; continue; fi
  res=""
  for c in $checks; do
    ./check $c --tier quick >/tmp/seedreg.out 2>&1; code=$?
    res="$res $c=exit$code"
  done
  git -C /repo checkout -- .
  echo "$id:$res"
done
