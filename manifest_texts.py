"""Texts for MANIFEST.json (kept apart from the run configuration)."""
HOOK_COMMITS = ["ded7f21", "6737bff", "56d5772", "59f9f13"]
NOTES = ("All checks are property-based tests / fuzzers (rapid v1.3.0 + native go fuzzing). Genuine defects found on the pinned tree are "
         "either repaired by 'fix:' commits in /repo or listed in /verif/known_findings.txt; see DESIGN.md.")
NOT_APPLICABLE = {}
CLAIMED = {
    "C01": dict(
        technique="model-based (state-machine) property testing with rapid; differential oracle = raw Go os package on a fresh tmpfs directory; shrinking to a minimal history",
        text=("Generated operation histories are applied to mem.FS, to keyvalue.FS over a plain map store and to os.FS, and step by step to the raw os package; "
              "success, returned data, the whole tree, Stat over the depth-3 path closure and Chtimes-set mtimes are compared after every step. "
              "Sampled exploration (hundreds of histories in quick, ~18k in thorough), not proof: it finds divergences reachable by short histories over a 3-name alphabet (per case either {a, ab, b} or {a, <unusual valid name>, b})."),
        note="trusts the Go os package on Linux tmpfs as the oracle; euid 0 so permission enforcement never triggers; known finding C01:readfile-directory is excluded by construction while its probe reproduces",
    ),
    "C02": dict(
        technique="model-based (state-machine) property testing with rapid over 1..3 handles; differential oracle = *os.File twins with io.Reader/io.ReaderAt EOF normalisation; shrinking",
        text=("Generated handle-level histories (open with any flags, read, readat, write, writeat, seek, truncate, stat, close on up to three handles of one file) run against mem.FS "
              "(multi-handle) and keyvalue.FS over a plain store (single handle), each call compared with the same call on an os.File twin; file bytes and every handle's offset are "
              "compared after every call. Sampled exploration (600+300 histories quick, 36k thorough)."),
        note="trusts os.File on tmpfs; zero-length reads on write-only handles and zero-length writes on read-only handles are not generated (os.File short-circuits them before the descriptor); read of a directory handle excluded while known finding C02:read-directory-handle reproduces",
    ),
    "C03": dict(
        technique="state-machine property testing with rapid; invariant oracle (well-formed tree) evaluated over the full depth-4 path closure after every step; watchdog for termination",
        text=("Generated histories (including root removal/rename, rename into a descendant, creation below regular files) run on mem.FS, keyvalue.FS over a plain store, a mount composition with a nested "
              "mount, and Sub views; after every step the tree invariants I1-I5 are evaluated on every constituent file system over all candidate paths of the case's alphabet (121 or more), not only those listings reveal. Handles -- of files and of directories, read in pages -- stay open across namespace steps; scripted legs build histories around a handle that outlives its path (stale) and around a directory handle paged while its children are removed, renamed or added (dirpage). Sampled exploration."),
        note="termination is observed as 'returned within the watchdog' (twice); removing/renaming the root of a Sub view is not generated; RemoveAll above a mount point is excluded while known finding C03:removeall-above-mountpoint reproduces",
    ),
    "C05": dict(
        technique="state-machine property testing with rapid; differential oracle on error values (type, path fields, sentinel set) = raw os package on a twin tmpfs tree; 12 layer stacks as subjects plus the read-only layers cache and tar",
        text=("Every failing FS-level call of generated histories is compared with the os package's error for the same call on a twin tree: concrete type, path fields in the caller's namespace equal to what os names, "
              "and every sentinel os matches. Per-case name alphabets include unusual valid names (leading/adjacent dots, space, non-ASCII, backslash, upper case). Subjects: mem, keyvalue/plain store, os.FS under 1-3 Sub roots, mount.FS with 0/1/2 nested mounts, Sub(mem), Sub(Sub(mem)), Sub(mount) at a mount point; cache and tar over a generated source tree (failing reads against os, failing mutations typed and naming the caller's path). Sampled exploration."),
        note="Op strings are not compared; for RemoveAll the name passed in is accepted besides the ancestor os names; ErrNotImplemented (unsupported op, e.g. Rename through a generic Sub view) only needs type+path; mount-boundary operations are left to C06",
    ),
    "C04": dict(
        technique="property-based testing with rapid (boundary construction around io/fs.ValidPath + fuzzed strings) and native coverage-guided go fuzzing in the thorough tier; oracle = error class + unchanged snapshots of every constituent FS",
        text=("For 12 subjects (mem, keyvalue/plain, keyvalue over a store that is offline (an invalid name must be refused before the store is asked), nested mounts, Sub(mem), Sub(mount), cache, tar -- healthy, over a truncated archive, and with a cancelled context --, os.FS, Sub over a lenient Open-only FS) in generated start states, every helper is probed (its other arguments taking degenerate values -- zero time, zero bits, empty data -- a third of the time) with names at the ValidPath boundary, "
              "fuzzed names and valid odd names; invalid names must give ErrInvalid and leave every constituent file system (and the os directory with its sentinel sibling) unchanged; valid names are never refused as invalid "
              "and backslash/colon are literal name bytes. Thorough adds a 45 s native fuzz campaign (~1M executions) over (subject, helper, position, name bytes)."),
        note="validity oracle is the standard library; 'no OS path reached the kernel' is approximated by directory + sentinel snapshots; ErrNotImplemented accepted where the helper is unsupported for valid names too",
    ),
    "C07": dict(
        technique="twin-world (metamorphic) state-machine property testing with rapid: op(Sub(fs,dir), name) vs op(fs, dir/name) from identical states; whole-state equality of every constituent FS",
        text=("Two identical parents are built from the same generated setup; histories are applied through Sub(parent, dir) in one and directly at dir/name in the other; results, error class/type/paths and the complete state "
              "of every constituent file system are compared after every step, which also shows that nothing outside dir is read or changed differently. Parents: mem, mount.FS, os.FS, an Open-only FS, a Sub view; per-case alphabets with unusual valid names (adjacent dots, leading dots, ...). Sampled exploration."),
        note="dir above a mount point is excluded while known finding C07:sub-above-mountpoint reproduces; symlinks not generated; error paths of MkdirAll/RemoveAll and of handle-level fallbacks are compared by class only",
    ),
    "C06": dict(
        technique="twin-world state-machine property testing with rapid against an independent reference router; model-based AddMount sequences; harness-gated concurrent AddMount (plus -race leg); fault enumeration on cross-mount rename",
        text=("Generated mount configurations (0-4 points incl. nested and string-prefix look-alikes; a quarter of them entered through a second, outer mount.FS layer) and histories: every op is routed by a harness-side longest-whole-element-prefix router and executed through mount.FS in one world and "
              "directly on the selected file system in the other; results and the snapshots of all constituent file systems must match, Mount() is re-evaluated under sampled table iteration orders, cross-mount renames are judged by a "
              "before/after predicate, AddMount sequences by a model, concurrent AddMount of one point (every caller with its own file system; exactly one wins and ITS file system is the one mounted afterwards) by a gate that forces the check-then-store window, and a cross-mount rename is repeated with a fault injected at every call index of the destination and source mounts (either it happened or both trees are as before). Sampled exploration; the window forcing is deterministic for the gated call only."),
        note="iteration orders of the mount table are sampled; losing an existing destination file when the cross-mount copy fails is known finding C06:cross-rename-fault-loses-existing-destination",
    ),
    "C08": dict(
        technique="property-based testing with rapid (generated states/arguments) + exhaustive enumeration inside each case of all capability subsets (generated mask types) and of every primitive-call fault index; differential oracle = the full-capability FS",
        text=("For each generated (start state, helper call) every subset of the interfaces the helper inspects is enumerated and compared with the full-capability run (result, sentinel class, final snapshot) or must be a clean ErrNotImplemented; "
              "then every primitive call of that run is failed in turn and the helper must not report success unless the work was verifiably done (a failing close of a written file loses the data). Subjects mem.FS and os.FS (whose start state may hold a symbolic link; then only subsets exposing Lstat are compared); all *File helpers on a bare file, with boundary arguments and read-only handles. "
              "The subset and fault-index spaces are exhaustive per case; states/arguments are sampled."),
        note="mem.FS itself uses the fallbacks for helpers it has no method for, so fallback-vs-method differences are only visible on the os.FS leg; RemoveAll of a directory without any Remove is excluded while known finding C08:removeall-dir-without-remove reproduces",
    ),
    "C16": dict(
        technique="property-based testing with rapid over generated directories and page-size sequences; oracle = the generated child set (model) + Stat of each child",
        text=("Generated directories (0-40 children, 200-300 on os.FS, mixed kinds, grandchildren and prefix-named siblings as decoys) on 7 subjects; ReadDir by name is checked for completeness, uniqueness, order and agreement with Stat; "
              "paged reads on one handle with generated page-size sequences (1, 2, N-1, N, N+1, 10^6, MaxInt32, MaxInt, and 0/-1/MinInt), optionally after activity between Open and the first page (Stat on the handle, a child added or removed), some children carrying set-uid/set-gid/sticky bits, are checked for permutation, no (empty,nil), EOF exactly at the end and n<=0 semantics. Sampled exploration."),
        note="directories are not mutated between pages; after a mid-way n<=0 call only error-free completion is asserted (the statement pins nothing more)",
    ),
    "C17": dict(
        technique="property-based testing with rapid; differential oracle for ErrClosed = closed *os.File twin; invariant oracles for sibling independence and for 'old name stays gone'",
        text=("On 7 subjects: every method, and its boundary-argument variants (empty buffers, Seek(0,current), ReadDir(-1), same-size Truncate), in every order after Close (an error wherever os.File gives one, no panic, ErrClosed where os.File says so); generated action sequences on one handle while a sibling's offset and validity are compared with an os twin; "
              "remove/rename/RemoveAll followed by mutations through a previously opened handle with Stat(old)/listing checked after each. Sampled exploration."),
        note="sibling contents are not compared over a plain Store (snapshot copies by design)",
    ),
    "C19": dict(
        technique="model-based (state-machine) property testing with rapid against a []byte model with alias groups; the same machine under GOOS=js/wasm (node) for the typed-array blob; rapid.MakeFuzz native fuzzing in the thorough tier",
        text=("Generated sequences of View/Slice/Set/Grow/Truncate/Len/Bytes (direct and through the blob.* helpers) over a pool of aliasing blobs, with arguments across and beyond the valid range; after every step every live blob is compared "
              "with a Go-slice model in which views alias and slices/Bytes are copies; out-of-range calls must not panic or modify anything; every call runs under a watchdog (self-aliasing Set). Runs natively (blob.Bytes) and in node (blob.Bytes, idbblob.Blob). Sampled exploration."),
        note="after a Grow/Truncate the alias partners' bytes are no longer asserted, their lengths are (a view is its own sequence); Set whose source overflows the destination is not generated (implementations legitimately differ); out-of-range errors are required only from the byte-slice implementation",
    ),
    "C18": dict(
        technique="model-based property testing with rapid against a map model (both transaction implementations); harness-owned interleaving of concurrent transactions by parking them inside handlers; crash tracing for unrecoverable runtime errors",
        text=("Generated call sequences (Get/GetHandler/Set/SetHandler with succeeding, failing, aborting and result-checking handlers, records whose contents cannot be produced, Commit, Commit under an already cancelled context, Abort; read-write and read-only modes) on the real in-memory transactions (via the verif hook) and on the serial fallback are checked against a map model: "
              "one result per call in order with matching unique ids, read-your-writes across transactions, handler errors, each handler handed the result Commit reports, no effect after abort, store released and equal to the model afterwards. A stale leg ends an already ended transaction again while a later one is open. A refused leg makes the store refuse Transaction() calls of a second caller (the dispatcher itself, or an FS write / remove / rename) while a transaction is open, which must re-read what it read. An isolation leg parks 2-6 concurrent transactions "
              "inside handlers and checks that never two are inside and nothing is torn. Sampled exploration; the isolation schedule is owned only at handler granularity."),
        note="a test-binary death (fatal error such as a double unlock) is reported as a violation with the traced history; Commit's return value for an aborted transaction is not asserted",
    ),
    "C14": dict(
        technique="property-based testing with rapid (generated histories) + exhaustive enumeration of the failing store-call index inside each case; oracle = error must surface / result equals fault-free result, no panic, FS view equals the store's real contents",
        text=("For every generated history (namespace and handle steps) every store call of the fault-free run is failed in turn, (one call, or an outage of 2-6 consecutive calls) on a lazy plain Store (serial fallback), on the real in-memory store behind a rejecting TransactionStore, and on a lock-taking TransactionStore over the lazy store (a transaction abandoned on an error path makes the next operation hang); "
              "a rejected Set must always surface as an error, a failed Get/Data/list must surface unless the result is identical to the fault-free one, nothing may panic or hang during or after, and at the end a fresh look-up must show exactly what the store holds. "
              "Fault indices are exhaustive per history (<=200); histories are sampled."),
        note="one fault per run; the wrapper for the TransactionStore rejects operations inside the transaction (the mem store itself cannot fail); examples/s3 is not buildable offline, its Store shape is reproduced by the harness's plain store",
    ),
    "C10": dict(
        technique="model-based (state-machine) property testing with rapid; differential oracle = twin handles/calls on an identical source tree; call-counting wrapper on the source for the 'no second read' clause",
        text=("Generated source trees, RetainData policies, cache-store kinds (full mem.FS / OpenFile+Mkdir only) and source handle flavours (with/without Seek); generated sequences of opens into slots (valid names, missing names and invalid spellings of served names), reads, seeks, stats, paged directory reads and closes are mirrored on a twin source; "
              "a counting wrapper checks that once a retained file is cached neither later opens nor reads through their handles reach the source. Sampled exploration."),
        note="the source is immutable during a case (the cache's documented precondition); modification times are not compared",
    ),
    "C11": dict(
        technique="property-based testing with rapid + exhaustive enumeration of fault sites (every source read, every cache-store call) per case; harness-gated source reads own the schedule of the concurrent fill (plus a -race leg)",
        text=("Per generated (size, location, store kind, seekability) every source Read and every cache-store call of the fault-free fill is failed in turn (once, or 'sticky': what broke stays broken, incl. the source's Close and Open, with further opens attempted before the repair), followed by fault-free re-opens: no open may ever return bytes that differ from the source without an error. "
              "Concurrent first opens of one file run with every source Read gated: the copy is paused at each chunk boundary while the others run, in a third of the cases with a source read failing meanwhile and a cache store that cannot remove the partial file; at most one read in flight, all opens return, all successful opens read complete bytes."),
        note="goroutines blocked on the path mutex are not observable: a drawn settle delay lets them run before the paused copy is released; fault sites are exhaustive per case, cases are sampled",
    ),
    "C12": dict(
        technique="property-based testing with rapid: generated logical trees rendered as tar archives (order, implicit directories, spellings, threshold sizes); model oracle = the logical tree; harness-gated destination calls released in a drawn order (schedule of the background writers)",
        text=("Generated archives are unpacked into the default, an explicit mem.FS, an OpenFile+Chmod+Mkdir-only wrapper or os.FS destination whose calls are released one at a time in a generated order; after Done() the tar FS and the destination must equal the model exactly "
              "(files: bytes and permission bits; explicit directories, including the root when it is an entry: bits; ancestors: kind; nothing else). Names include siblings that are string prefixes of each other, dot names and names with adjacent dots that are not parent references (a..d, ..c, ..., f3..x). Separate legs: 85-120 files (more than the small-buffer pool holds) and archives containing one escaping entry. Sampled exploration of inputs and schedules."),
        note="schedules are owned at destination-call granularity only (what happens inside a destination call is free-running); directories with a later descendant entry are compared by kind only on in-memory destinations while known finding C12:dir-mode-lost-mkdirall-vs-mkdir reproduces (full check remains on os.FS)",
    ),
    "C13": dict(
        technique="property-based testing with rapid + enumeration of every cut point / destination-call fault per archive; the harness owns the archive reader, the destination calls and (verif hook) three race points inside tar; free-running stress and burst legs; model-based checks of pubsub and bufferPool",
        text=("Archives are streamed block by block through a reader the harness parks and faults (truncate, error, cancel) while Open calls are launched against entries not yet reached, half-written (destination write held), written, directories and missing names; "
              "every cut block and every destination call index (one failing call, or every call from it on) is enumerated per archive; the held destination write may fail when it is released (after a cancel); tar's reader/announcer goroutines are parked at verifPoint markers while everything is opened; the same cases also run free (60 repetitions). A successful Open must deliver the complete bytes, "
              "and Done / every Open must return once the stream ended, failed or was cancelled. pubsub and bufferPool are driven directly against models (plus a barrier burst hunting a lost wake-up)."),
        note="liveness is observed as 'returned within the watchdog'; interleavings inside a destination call or between points the harness does not own are only sampled by the stress legs",
    ),
    "C15": dict(
        technique="property-based testing with rapid over small concurrent programs; harness-owned cooperative scheduler over the real in-memory store (yield points at every store transaction and blob operation); serializability oracle = set of outcomes of all sequential orders; exhaustive DFS over schedules with <=2 pre-emptions; a completely enumerated family of single-mutator/observer programs; free-running legs incl. the race detector",
        text=("Generated programs (2-3 goroutines x 1-3 operations incl. per-goroutine handle I/O) run under a scheduler the harness owns; every explored interleaving's results + final tree must equal some sequential order's. "
              "Per program either 12 drawn schedules or every schedule with <=2 pre-emptions; an independence leg confines goroutines to disjoint subtrees; a storm leg repeats generated Truncate/Write/read bodies through several handles on one file on real cores (windows inside one blob operation); a dirstorm leg lets mutator goroutines rewrite the records of permanent children (chmod, handle writes, re-creating opens) while observer goroutines list / stat / remove their directories on real cores (windows inside one store.Set, seen only by listings, which read outside transactions): every listing names every permanent child; observer legs run ONE mutating operation against read-only threads (stat/readdir/cat) under every <=2-pre-emption schedule (random, and a complete canonical family in the quick tier), so an operation that stops being one step is seen even where two mutators are excluded; free-running legs (hot-file programs, 5 iterations x 20 repetitions, and -race in thorough) look for panics, deadlocks and data races. "
              "Bounded: programs are sampled; schedules are exhaustive only up to 2 pre-emptions at transaction/blob-operation granularity."),
        note="cross-thread operation pairs of the 60 listed classes C15:ns:<kinds>:<relation> (operations are multi-transaction: needs a redesign; each class has a recorded witness that its probe replays) are excluded by construction from the serializability legs, all other same-path / ancestor / sibling classes are searched; they remain in the free-running/race legs; in the observer legs only the exactly identified classes C15:obs:* (MkdirAll of >=2 levels, Rename of a directory, a listing racing a rename inside it) are excluded; a data race report is a violation whose schedule cannot be replayed",
    ),
    "C09": dict(
        technique="property-based testing with rapid over roots, volumes, conventions, names and constructed OS-path candidates; oracles computed by splitting/cleaning in the harness (round-trip and inverse relations); differential against the raw os package at root+name for live operations; native coverage-guided fuzzing in the thorough tier",
        text=("Through the verif hook both the Unix and the Windows convention are driven on Linux: valid names must map to volume + separator + root and name elements, invalid ones to ErrInvalid; ToOSPath/FromOSPath must round-trip; any absolute candidate FromOSPath accepts must be a valid FS path inside the root whose "
              "forward image is the lexically cleaned candidate. A live leg exercises the exported functions of this host (relative paths refused); a liveops leg runs every name-taking operation (Mkdir, MkdirAll, WriteFile, Symlink, Rename, Remove, Chmod, Chtimes) through an os.FS built by 1-3 Sub calls over oddly named directories and, in a twin directory, the raw os package at root+name, comparing both trees with Lstat/Readlink after every step; afterwards the failing calls of read-only, directory and closed handles (incl. io.Copy in both directions) are provoked and no error may carry the OS path. Thorough adds ~2M native fuzz executions."),
        note="names or Sub directories containing a backslash or colon under the Windows convention have no exact OS spelling: ErrInvalid or 'inside the root' is accepted; OS error paths under Sub roots are checked by C05",
    ),
    "C20": dict(
        technique="mutation of the system under test: generated/enumerated deviant file systems (operation x deviation kind x trigger) run against the real conformance suite in re-executed test binaries; a recording wrapper decides mechanically whether the suite observed the deviation (trace differential vs the reference); ratchet against the deviants rejected at the pinned commit",
        text=("Every deviant of a finite grammar is run against fstest.FS + fstest.File; the calls the suite makes and the results it is handed are recorded per scenario on the deviant and on the reference; a deviant whose recorded behaviour differs must make the suite fail. "
              "The reference (mem.FS, os.FS) must pass repeatedly at parallelism {1,16}x{1,16} with identical recorded behaviour. Both tiers enumerate the whole grammar (541 deviants, incl. argument-class triggers, weaker-error substitutions and deviations that exist only while calls overlap), exhaustive for that grammar; the 276 deviants rejected at the pinned commit must stay rejected."),
        note="triggers include argument classes (e.g. Truncate only when shrinking); a deviant rejected at the pinned commit (harness/c20/expected_killed.txt) that no scenario observes any more is a violation C20:unexercised (stricter than the literal statement: 'exercised' is pinned to the pinned commit); survivors with a listed signature (operation:kind) are known findings (mode mask of zero, subset tree assertions, unread counts); any other surviving deviant is a violation; exposure that depends on goroutine scheduling (concurrent scenarios, call-count triggers in shared-FS scenarios) is not counted",
    ),
}
