"""Texts for MANIFEST.json (kept apart from the run configuration)."""
HOOK_COMMITS = []
NOTES = ("All checks are property-based tests / fuzzers (rapid v1.3.0 + native go fuzzing). Genuine defects found on the pinned tree are "
         "either repaired by 'fix:' commits in /repo or listed in /verif/known_findings.txt; see DESIGN.md.")
NOT_APPLICABLE = {}
CLAIMED = {}
